(* Run-time vocabulary of the code that tools/rs2coq_query.py generates from the
   READ side of src/rbac_api.rs and src/management_api.rs (part 13:
   Gen/QueryGen.v).  Hand-written, definitions only: these are the TRUSTED
   restatements of the std / hashlink operations and of the three things the
   query helpers call on the enforcer (`get_model()`, `get_role_manager()`,
   `enforce(..)`).  Facts about them are in Proofs/QueryP.v, the obligations
   that tie the generated functions to the model's `ask` in
   PinChecks/PcQueryGen.v.

   Conventions (as in Gen/RustVec.v / Gen/RustIter.v, which are reused: `flow`,
   `rs_for`, `rs_fn`, `rs_push`, `rs_vec_is_empty`, `rs_vec_eq`, `rs_index`,
   the iterator adaptors, `hs_new` / `hs_insert` / `hs_extend` / `hs_to_vec`):
   `Vec<T>` is `list T`, `String` / `&str` is `text`, `usize` is `nat`,
   `HashSet<String>` is the duplicate-free list of its elements and every
   function that iterates over one takes the iteration order
   `ord : list text -> list text` (the obligations quantify over all `ord` that
   permute their argument).  A `&self` method of the API becomes a function of
   the enforcer state `s : estate` with result `option R`: None = a panic (or a
   `while` loop that did not finish within `fuel` iterations). *)
From CV Require Import Model.Base Model.RoleGraph Model.Expr Model.Enforce Model.Engine.
From CV Require Import Gen.RustStr Gen.RustVec Gen.RustIter Gen.StoreGen.

(* ------------------------------------------------------------------ Vec *)
(* v.insert(i, x): "Panics if index > len"; the elements from i on move right *)
Definition rs_vec_insert {A} (v : list A) (i : nat) (x : A) : option (list A) :=
  if Nat.leb i (length v) then Some (firstn i v ++ x :: skipn i v) else None.
(* v.remove(i): "Panics if index is out of bounds"; the elements after i move left *)
Definition rs_vec_remove {A} (v : list A) (i : nat) : option (A * list A) :=
  match nth_error v i with
  | Some x => Some (x, firstn i v ++ skipn (S i) v)
  | None => None
  end.
(* v.swap_remove(i): "Removes an element from the vector and returns it.  The
   removed element is replaced by the last element of the vector.  This does
   not preserve ordering ...  Panics if index is out of bounds." *)
Definition rs_swap_remove {A} (v : list A) (i : nat) : option (A * list A) :=
  match nth_error v i with
  | None => None
  | Some x =>
    match rev v with
    | [] => None
    | lst :: rinit =>
      let init := rev rinit in                      (* v = init ++ [lst] *)
      Some (x, if Nat.eqb i (length init) then init
               else firstn i init ++ lst :: skipn (S i) init)
    end
  end.
(* v.pop(): the last element (None when empty) and what is left *)
Definition rs_vec_pop {A} (v : list A) : option A * list A :=
  match rev v with
  | [] => (None, [])
  | x :: r => (Some x, rev r)
  end.
(* v.extend(it): the items are appended in order *)
Definition rs_extend {A} (v it : list A) : list A := v ++ it.
(* v.contains(&x) on a Vec<String> / slice: some element == x *)
Definition rs_vec_contains (v : list text) (x : text) : bool := existsb (fun y => rs_eq y x) v.
(* v.len() *)
Definition rs_vec_len {A} (v : list A) : nat := length v.
(* it.all(p) *)
Definition rs_iter_all {A} (p : A -> bool) (l : list A) : bool := forallb p l.

(* -------------------------------------------------------------- HashSet *)
(* the VALUE of s.insert(x): "Returns whether the value was newly inserted"
   (the set afterwards is RustIter.hs_insert s x) *)
Definition hs_insert_new (s : list text) (x : text) : bool := negb (existsb (rs_eq x) s).
(* s.contains(&x) *)
Definition hs_contains (s : list text) (x : text) : bool := existsb (rs_eq x) s.

(* ---------------------------------------------------------------- while *)
(* while <cond> { body }: `cond s` is the condition on the loop-carried locals
   (None = it panics).  Gallina needs a bound on the number of iterations:
   `Panicked` also stands for "not finished within `fuel` evaluations of the
   condition"; the obligations show that the translated loop is `Done` within
   the fuel the model uses. *)
Fixpoint rs_while {S R} (fuel : nat) (cond : S -> option bool) (body : S -> flow S R) (s : S)
  : loop_result S R :=
  match fuel with
  | 0 => Panicked
  | S fuel' =>
    match cond s with
    | None => Panicked
    | Some false => Done s
    | Some true =>
      match body s with
      | LNext s2 => rs_while fuel' cond body s2
      | LBreak s2 => Done s2
      | LReturn r => Returned r
      | LPanic => Panicked
      end
    end
  end.

(* ------------------------------------------------- the model store (reads) *)
(* <&dyn Model>.get_model(): &HashMap<String, AssertionMap>; .get(sec) *)
Definition hm_get_section (md : model) (sec : text) : option amap := assoc sec md.
(* AssertionMap = LinkedHashMap<String, Assertion>: .get(key); iterating it
   yields the (key, assertion) pairs in insertion order = the order of the list *)
Definition amap_get (am : amap) (key : text) : option assertion := assoc key am.
(* Model::get_policy(sec, ptype) (default_model.rs): the rules of the assertion
   in stored order, cloned; `vec![]` when the section or the type is unknown *)
Definition mdl_get_policy (md : model) (sec pt : text) : list rule :=
  match get_ast md sec pt with Some a => a_policy a | None => [] end.
(* Model::get_filtered_policy / has_policy / get_values_for_field_in_policy:
   the functions TRANSLATED by part 3 (Gen/StoreGen.v), applied to the rule
   list of the assertion, or their `_absent` form when a lookup fails *)
Definition mdl_get_filtered_policy (md : model) (sec pt : text) (idx : nat) (vals : list text)
  : option (list rule) :=
  match get_ast md sec pt with
  | Some a => gen_get_filtered idx vals (a_policy a)
  | None => gen_get_filtered_absent idx vals
  end.
Definition mdl_has_policy (md : model) (sec pt : text) (r : list text) : option bool :=
  match get_ast md sec pt with
  | Some a => gen_has_policy r (a_policy a)
  | None => gen_has_policy_absent r
  end.
Definition mdl_values_for_field (md : model) (sec pt : text) (idx : nat) : option (list text) :=
  match get_ast md sec pt with
  | Some a => gen_values_for_field idx (a_policy a)
  | None => gen_values_for_field_absent idx
  end.

(* --------------------------------------------------------- role managers *)
(* an `Arc<RwLock<dyn RoleManager>>` is the model's `handle` (which manager the
   Arc points at).  CoreApi::get_role_manager of Enforcer is
   `Arc::clone(&self.rm)`: the enforcer's CURRENT manager.  `<assertion>.rm` is
   `a_handle`.  `.read()` is the identity. *)
Definition cur_role_manager : handle := HCur.
(* RoleManager::get_roles(name, domain) / get_users(name, domain) through a
   handle: the direct roles / users as the model has them; the Vec is collected
   from a HashSet, hence in the order `ord` *)
Definition rm_get_roles (ord : list text -> list text) (fs : fstate) (h : handle)
    (n : text) (d : option text) : list text := ord (handle_get_roles fs h n d).
Definition rm_get_users (ord : list text -> list text) (fs : fstate) (h : handle)
    (n : text) (d : option text) : list text := ord (handle_get_users fs h n d).

(* ---------------------------------------------------------------- enforce *)
(* CoreApi::enforce(req) with req : Vec<String>: every String becomes a string
   value of the request; the decision is the model's `enforce` (Ok / Err /
   Panic = the call unwinds) *)
Definition enf_enforce (ptab : text -> option expr) (s : estate) (req : list text) : outcome bool :=
  enforce ptab s (map VStr req).
