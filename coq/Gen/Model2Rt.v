(* HAND-WRITTEN (TRUSTED) Gallina counterparts of the std / hashlink / thiserror
   operations used by the units that tools/rs2coq_model2.py translates (part 18:
   Gen/Model2Gen.v): the lookups of the policy store (default_model.rs), the
   lookup macros (macros.rs), the conversions (convert.rs) and the error enums
   (error.rs).  Definitions only; the facts about them are in Proofs/Model2P.v and
   the obligations that tie the translated functions to the model in
   PinChecks/PcModel2Gen.v.  The mini-moka cache behind default_cache.rs is in
   Gen/MokaRt.v.

   Same conventions as the other Rt files, which are reused: `flow` / `rs_fn`
   (Gen/RustVec.v), `rs_result`, `rs_unwrap_or`, `rs_opt_map`, `rs_is_some`
   (Gen/RustIter.v), `hm_get` (Gen/Petgraph.v: HashMap::get), `lhm_get`,
   `rs_and_then` (Gen/IniRt.v: LinkedHashMap::get, Option::and_then),
   `rs_model_set`, `rs_ast_set_policy` (Gen/LinksPrims.v: the write-back of a
   borrowed section, `ast.policy = ..`), `rs_format1` (Gen/RustStr.v).
   `.clone()` `.to_owned()` `.iter()` `.into_iter()` `.cloned()` `.collect()`
   `&` `Box::new` `.await` are the identity; `x as u64` is the identity on nat.

   Nothing here is defined through the model's helpers (get_ast, set_ast,
   assoc, assoc_set, cache_get), so that the equations of PcModel2Gen.v have
   content. *)
From CV Require Import Model.Base Model.Enforce.
From CV Require Import Gen.RustStr Gen.RustVec Gen.RustIter Gen.Petgraph Gen.IniRt.

(* ------------------------------------------- the model map and its sections *)
(* self.model : HashMap<String, AssertionMap>;  .get(k) / .get_mut(k): the entry
   with that key, if any (the `&mut` differs only in what may be done with it) *)
Definition rs_smap_get (md : model) (k : text) : option amap := hm_get md k.
Definition rs_smap_get_mut (md : model) (k : text) : option amap := hm_get md k.
(* AssertionMap = LinkedHashMap<String, Assertion>;  .get(k) / .get_mut(k) *)
Definition rs_amap_get (am : amap) (k : text) : option assertion := lhm_get am k.
Definition rs_amap_get_mut (am : amap) (k : text) : option assertion := lhm_get am k.
(* the end of a `&mut Assertion` borrowed by am.get_mut(k): the entry with key k
   now holds a; no entry is created, moved or removed (get_mut does not touch
   the order of a LinkedHashMap) *)
Fixpoint rs_amap_set (am : amap) (k : text) (a : assertion) : amap :=
  match am with
  | [] => []
  | (k', a') :: r => if rs_eq k k' then (k', a) :: r else (k', a') :: rs_amap_set r k a
  end.

(* ------------------------------------------------------------ Option / Result *)
(* o.ok_or_else(f) *)
Definition rs_ok_or_else {A E} (o : option A) (f : unit -> E) : rs_result A E :=
  match o with Some x => ROk x | None => RErr (f tt) end.

(* ------------------------------------------------- error payloads from outside *)
(* the payloads of crate::Error that are defined in other crates: nothing of them
   is observed (the harness reports the variant only) *)
Inductive ext_io_error : Type := ExtIoError.        (* std::io::Error *)
Inductive ext_eval_error : Type := ExtEvalError.    (* Box<rhai::EvalAltResult> *)
Inductive ext_parse_error : Type := ExtParseError.  (* rhai::ParseError *)
Inductive ext_boxed_error : Type := ExtBoxedError.  (* Box<dyn std::error::Error + Send + Sync> *)

(* the class under which the harness reports a variant of crate::Error
   (harness/src/eng.rs err_class) in the model's vocabulary (Model/Base.v errc) *)
Definition errc_of_variant (v : text) : option errc :=
  if rs_eq v (T "IoError") then Some EIo
  else if rs_eq v (T "ModelError") then Some EModel
  else if rs_eq v (T "PolicyError") then Some EPolicy
  else if rs_eq v (T "RbacError") then Some ERbac
  else if rs_eq v (T "RhaiError") then Some EEvalc
  else if rs_eq v (T "RhaiParseError") then Some EEvalc
  else if rs_eq v (T "RequestError") then Some ERequest
  else if rs_eq v (T "AdapterError") then Some EAdapter
  else None.

(* ---------------------------------------------------------------- DefaultHasher *)
(* a u64 digest is represented by WHAT WAS HASHED, in order (the convention of
   Gen/CachedRt.v / Model/Cached.v: the 64-bit SipHash is assumed injective on
   the keys in play).  x.hash(&mut h) feeds the value; for a Vec<T> std feeds the
   length first and then every element ("impl Hash for [T]": write_length_prefix) *)
Inductive hpart (S : Type) : Type := HOne (x : S) | HLen (n : nat).
Arguments HOne {S} x.
Arguments HLen {S} n.
Definition rs_hasher_new {S} : list (hpart S) := [].
Definition rs_hash_one {S} (x : S) (h : list (hpart S)) : list (hpart S) := h ++ [HOne x].
Definition rs_hash_vec {S} (v : list S) (h : list (hpart S)) : list (hpart S) :=
  h ++ HLen (length v) :: map HOne v.
Definition rs_hasher_finish {S} (h : list (hpart S)) : list (hpart S) := h.
