(* GENERATED on every run by tools/rs2coq.py (tools/rs2coq_rmcache.py) from /repo/src/rbac/default_role_manager.rs
   - do not edit.  DefaultRoleManager with `feature = "cached"` ON: the functions that reach the has_link cache,
   with the statements under #[cfg(feature = "cached")] translated.  `cache` (a DefaultCache<u64, bool>, all of
   whose methods take &self) is a separate state component: gen_cache_* of Gen/Model2Gen.v over Gen/MokaRt.v;
   the key is built by rs_hasher_new / rs_hash_str / rs_hasher_finish (Gen/RmCacheRt.v), `hfin` = the digest.
   rm_state and every function that does not reach the cache are those of Gen/RoleManagerGen.v. *)
From CV Require Import Model.Base Model.RoleGraph Model.RoleGraphM Gen.RustStr Gen.RustVec Gen.RustIter Gen.Petgraph.
From CV Require Import Gen.MokaRt Gen.Model2Gen Gen.RoleManagerGen Gen.RmCacheRt.

Definition gen_c_new (sched : list (nat -> bool)) (v_max_hierarchy_level : nat) : rm_state * moka nat bool :=
 ({| rm_all_domains := hm_new; rm_all_domains_indices := hm_new; rm_max_hierarchy_level := v_max_hierarchy_level; rm_role_matching_fn := None; rm_domain_matching_fn := None |}, (gen_cache_new nat bool sched 50)).

Definition gen_c_get_or_create_role (self : rm_state) (cache : moka nat bool) (v_name : text) (v_domain : option text) : option (rm_state * (moka nat bool) * node_index) :=
 rs_fn (R := rm_state * (moka nat bool) * node_index) (let v_domain := (rs_unwrap_or v_domain gen_DEFAULT_DOMAIN) in
 (let '(m1, v_graph) := hm_entry_or (rm_all_domains self) v_domain pg_new in
 (let self := (set_rm_all_domains self m1) in
 (let '(m3, v_inner2) := hm_entry_or (rm_all_domains_indices self) v_domain hm_new in
 (let self := (set_rm_all_domains_indices self m3) in
 (match hm_get v_inner2 v_name with
 | Some occ4 => (LReturn (self, cache, occ4))
 | None => (let '(g5, r6) := pg_add_node v_graph v_name in
 (let v_graph := g5 in
 (let self := (set_rm_all_domains self (hm_insert (rm_all_domains self) v_domain v_graph)) in
 (let v_new_role_id := r6 in
 (let v_inner2 := (hm_insert v_inner2 v_name v_new_role_id) in
 (let self := (set_rm_all_domains_indices self (hm_insert (rm_all_domains_indices self) v_domain v_inner2)) in
 (match (rm_role_matching_fn self) with
 | Some v_role_matching_fn => (let v_added := false in
 (match (rs_iter_filter_opt (fun v_i => (match (pg_node_weight v_graph v_i) with Some o7 => (Some (negb (rs_eq o7 v_name))) | None => None end)) (pg_node_indices v_graph)) with Some o8 => (let v_node_ids := o8 in
 (match rs_for (fun v_existing_role_id '(self, v_added, v_graph) =>
 (match (gen_link_if_matches v_graph v_role_matching_fn v_new_role_id v_existing_role_id) with
 | Some (s9, r10) => (let v_graph := s9 in
 (let self := (set_rm_all_domains self (hm_insert (rm_all_domains self) v_domain v_graph)) in
 (let v_added := (v_added || r10) in
 (match (gen_link_if_matches v_graph v_role_matching_fn v_existing_role_id v_new_role_id) with
 | Some (s11, r12) => (let v_graph := s11 in
 (let self := (set_rm_all_domains self (hm_insert (rm_all_domains self) v_domain v_graph)) in
 (let v_added := (v_added || r12) in
 (LNext (self, v_added, v_graph)))))
 | None => LPanic end))))
 | None => LPanic end))
 v_node_ids (self, v_added, v_graph) with
 | Done (self, v_added, v_graph) => (let cache := (if v_added then (let cache := (gen_cache_clear nat bool Nat.eqb cache) in
 cache) else cache) in
 (LReturn (self, cache, v_new_role_id)))
 | Returned ret_ => LReturn ret_
 | Panicked => LPanic end)) | None => LPanic end))
 | None => (LReturn (self, cache, v_new_role_id)) end))))))) end)))))).

Definition gen_c_clear (self : rm_state) (cache : moka nat bool) : option (rm_state * (moka nat bool)) :=
 rs_fn (R := rm_state * (moka nat bool)) (let self := (set_rm_all_domains_indices self hm_new) in
 (let self := (set_rm_all_domains self hm_new) in
 (let cache := (gen_cache_clear nat bool Nat.eqb cache) in
 (LReturn (self, cache))))).

Definition gen_c_add_link (self : rm_state) (cache : moka nat bool) (v_name1 : text) (v_name2 : text) (v_domain : option text) : option (rm_state * (moka nat bool)) :=
 rs_fn (R := rm_state * (moka nat bool)) (if (rs_eq v_name1 v_name2)
 then (LReturn (self, cache))
 else (match (gen_c_get_or_create_role self cache v_name1 v_domain) with
 | Some (s1, s2, r3) => (let self := s1 in
 (let cache := s2 in
 (let v_role1 := r3 in
 (match (gen_c_get_or_create_role self cache v_name2 v_domain) with
 | Some (s4, s5, r6) => (let self := s4 in
 (let cache := s5 in
 (let v_role2 := r6 in
 (let key7 := (rs_unwrap_or v_domain gen_DEFAULT_DOMAIN) in
 (match hm_get (rm_all_domains self) key7 with
 | Some v_graph => (match (match (pg_find_edge v_graph v_role1 v_role2) with Some v_edge => (match (match (pg_edge_weight v_graph v_edge) with Some o8 => (Some (ek_is o8 KLink)) | None => None end) with Some o9 => (Some (negb o9)) | None => None end) | None => (Some true) end) with Some o10 => (let v_add_link := o10 in
 (if v_add_link
 then (match pg_add_edge v_graph v_role1 v_role2 KLink with
 | Some (g11, r12) => (let v_graph := g11 in
 (let self := (set_rm_all_domains self (hm_insert (rm_all_domains self) key7 v_graph)) in
 (let cache := (gen_cache_clear nat bool Nat.eqb cache) in
 (LReturn (self, cache)))))
 | None => LPanic end)
 else (LReturn (self, cache)))) | None => LPanic end)
 | None => LPanic end)))))
 | None => LPanic end))))
 | None => LPanic end)).

Definition gen_c_matching_fn (self : rm_state) (cache : moka nat bool) (v_role_matching_fn : option mfun) (v_domain_matching_fn : option mfun) : option (rm_state * (moka nat bool)) :=
 rs_fn (R := rm_state * (moka nat bool)) (let self := (set_rm_domain_matching_fn self v_domain_matching_fn) in
 (let self := (set_rm_role_matching_fn self v_role_matching_fn) in
 (LReturn (self, cache)))).

Definition gen_c_delete_link (ord : list text -> list text) (self : rm_state) (cache : moka nat bool) (v_name1 : text) (v_name2 : text) (v_domain : option text) : option (rm_state * (moka nat bool) * (rs_result unit rbac_error)) :=
 rs_fn (R := rm_state * (moka nat bool) * (rs_result unit rbac_error)) (if (rs_eq v_name1 v_name2)
 then (LReturn (self, cache, (ROk tt)))
 else (match (match (match (gen_domain_has_role ord self v_name1 v_domain) with Some o1 => (Some (negb o1)) | None => None end) with Some true => (Some true) | Some false => (match (gen_domain_has_role ord self v_name2 v_domain) with Some o2 => (Some (negb o2)) | None => None end) | None => None end) with Some o3 => (if o3
 then (LReturn (self, cache, (RErr (RbacNotFound (v_name1 ++ (T " OR ") ++ v_name2)))))
 else (match (gen_c_get_or_create_role self cache v_name1 v_domain) with
 | Some (s4, s5, r6) => (let self := s4 in
 (let cache := s5 in
 (let v_role1 := r6 in
 (match (gen_c_get_or_create_role self cache v_name2 v_domain) with
 | Some (s7, s8, r9) => (let self := s7 in
 (let cache := s8 in
 (let v_role2 := r9 in
 (let key10 := (rs_unwrap_or v_domain gen_DEFAULT_DOMAIN) in
 (match hm_get (rm_all_domains self) key10 with
 | Some v_graph => (match (pg_find_edge v_graph v_role1 v_role2) with
 | Some v_edge_index => (let '(g11, r12) := pg_remove_edge v_graph v_edge_index in
 (let v_graph := g11 in
 (let self := (set_rm_all_domains self (hm_insert (rm_all_domains self) key10 v_graph)) in
 (match r12 with Some u13 => (let cache := (gen_cache_clear nat bool Nat.eqb cache) in
 (LReturn (self, cache, (ROk tt)))) | None => LPanic end))))
 | None => (LReturn (self, cache, (ROk tt))) end)
 | None => LPanic end)))))
 | None => LPanic end))))
 | None => LPanic end)) | None => LPanic end)).

Definition gen_c_has_link (hfin : hasher -> nat) (ord : list text -> list text) (fuel : nat) (self : rm_state) (cache : moka nat bool) (v_name1 : text) (v_name2 : text) (v_domain : option text) : option ((moka nat bool) * bool) :=
 rs_fn (R := (moka nat bool) * bool) (if (rs_eq v_name1 v_name2)
 then (LReturn (cache, true))
 else (let v_hasher := rs_hasher_new in
 (let v_hasher := (rs_hash_str v_hasher v_name1) in
 (let v_hasher := (rs_hash_str v_hasher v_name2) in
 (let v_hasher := (rs_hash_str v_hasher (rs_unwrap_or v_domain gen_DEFAULT_DOMAIN)) in
 (let v_cache_key := (rs_hasher_finish hfin v_hasher) in
 (let '(g1, r2) := gen_cache_get nat bool Nat.eqb cache v_cache_key in
 (let cache := g1 in
 (match r2 with
 | Some v_res => (LReturn (cache, v_res))
 | None => (let v_matched_domains := (gen_matched_domains ord self v_domain) in
 (let v_res := false in
 (match rs_for (fun v_domain'3 v_res =>
 (match (hm_get (rm_all_domains self) v_domain'3) with Some o4 => (let v_graph := o4 in
 (match (hm_get (rm_all_domains_indices self) v_domain'3) with Some o5 => (let v_indices := o5 in
 (match (match (hm_get v_indices v_name1) with Some v_role1 => (Some (Some v_role1)) | None => (rs_iter_find_opt (fun v_i => (match (pg_node_weight v_graph v_i) with Some v_role_name => (Some ((rs_eq v_role_name v_name1) || (rs_unwrap_or (rs_opt_map (fun v_f => (v_f v_name1 v_role_name)) (rm_role_matching_fn self)) false))) | None => None end)) (pg_node_indices v_graph)) end) with Some o6 => (let v_role1 := o6 in
 (match v_role1 with
 | Some v_role1'7 => (let v_role1'8 := v_role1'7 in
 (match (gen_bfs_new v_graph v_role1'8 (rm_max_hierarchy_level self) (rs_is_some (rm_role_matching_fn self))) with Some o9 => (let v_bfs := o9 in
 (match rs_while_some fuel (fun '(v_bfs, v_res) =>
 (match (gen_bfs_next v_bfs v_graph) with
 | Some (s10, r11) => (let v_bfs := s10 in
 Some ((v_bfs, v_res), r11))
 | None => None end))
 (fun v_node '(v_bfs, v_res) =>
 (match (pg_node_weight v_graph v_node) with Some o12 => (let v_role_name := o12 in
 (if ((rs_eq v_role_name v_name2) || (rs_unwrap_or (rs_opt_map (fun v_f => (v_f v_role_name v_name2)) (rm_role_matching_fn self)) false))
 then (let v_res := true in
 (LBreak (v_bfs, v_res)))
 else (LNext (v_bfs, v_res)))) | None => LPanic end))
 (v_bfs, v_res) with
 | Done (v_bfs, v_res) => (LNext v_res)
 | Returned ret_ => LReturn ret_
 | Panicked => LPanic end)) | None => LPanic end))
 | None => (LNext v_res) end)) | None => LPanic end)) | None => LPanic end)) | None => LPanic end))
 v_matched_domains v_res with
 | Done v_res => (let cache := (gen_cache_set nat bool Nat.eqb cache v_cache_key v_res) in
 (LReturn (cache, v_res)))
 | Returned ret_ => LReturn ret_
 | Panicked => LPanic end))) end))))))))).

(* the functions that reach the cache: add_link, clear, delete_link, get_or_create_role, has_link, matching_fn; every other function is the one of Gen/RoleManagerGen.v *)
Definition gen_rmcache_translated : bool := true.
