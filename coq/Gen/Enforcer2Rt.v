(* HAND-WRITTEN Gallina counterparts of the std / rhai / crate operations that the
   bodies translated by tools/rs2coq_enf2.py (rs2coq part 15: Gen/Enforcer2Gen.v)
   are written with.  Definitions only (TRUSTED restatements; each one names the
   Rust operation it stands for).  PinChecks/PcEnforcer2Gen.v proves the
   translated functions equal to the engine model; the general facts are in
   Proofs/Enforcer2P.v.

   Covered bodies: src/enforcer.rs `impl EventEmitter<Event> for Enforcer`
   (on / off / emit), Enforcer::register_g_functions (with the macro
   register_g_function! of src/macros.rs), EnforceContext::new, and of
   `impl CoreApi for Enforcer`: new_raw, new, enforce, enforce_mut,
   enforce_with_context, build_incremental_role_links; src/emitter.rs
   notify_logger_and_watcher, clear_cache.

   THE STATE.  Model/Engine.v keeps, of the fields `events`, `fm` and `engine` of
   the Rust struct, only an abstraction: the NUMBER of PolicyChange callbacks
   (e_callbacks), the role closures (f_gfuns) and the added functions (f_ufuns),
   with the precedence "added function, then role closure, then default
   function" built into Enforce.call_fn.  The bodies translated here are about
   exactly these three fields (a HashMap<Event, Vec<fn>>, a FunctionMap, a rhai
   Engine in which the LAST registration of a name and arity wins), so they run
   on `renf`, a record with one field per field of `struct Enforcer`, and
   `abs : renf -> estate` gives the state of the model that a Rust-level state
   stands for.  The statements of PcEnforcer2Gen.v have the form
        abs (translated f x) = model's f (abs x)        for every x : renf
   and, for the engine, `eng_coherent`: a call through the registrations of the
   engine gives what Enforce.call_fn gives on abs x. *)
From CV Require Import Model.Base Model.Expr Model.RoleGraph Model.Enforce Model.Engine Model.Cached.
From CV Require Import Gen.RustStr Gen.RustVec Gen.EnforcerPrims Gen.CachedRt.

(* ------------------------------------------------------------------ *)
(* emitter.rs                                                          *)

(* enum Event { PolicyChange, ClearCache }  (derives Hash, PartialEq, Eq) *)
Inductive evkind := KPolicyChange | KClearCache.
Definition evkind_eqb (a b : evkind) : bool :=
  match a, b with
  | KPolicyChange, KPolicyChange => true
  | KClearCache, KClearCache => true
  | _, _ => false
  end.

(* enum EventData: the model's `event`.  EventData::ClearCache has no
   constructor there (it is only ever emitted under Event::ClearCache, for
   which the plain Enforcer has no callback; part 4 takes that emit as the hook
   InternalPrims.emit_clear_cache).  `d.clone()` is the identity. *)
Definition evdata : Type := event.

(* type EventCallback = fn(&mut Enforcer, EventData): the fn items of the crate
   with this type.  There is one, emitter::notify_logger_and_watcher::<Enforcer>
   (emitter::clear_cache needs T: CachedApi, which Enforcer does not implement). *)
Inductive callback := CbNotify.

(* ------------------------------------------------------------------ *)
(* std::collections::HashMap<K, V>, as an association list with at most one
   entry per key.  get / insert / remove / clear / entry(k).or_default() restate
   the std documentation.  The position of an entry is not observable through
   these operations; an iteration (`for (k, v) in &map`) visits every entry once
   in an unspecified order, here the order of the list - the statements about a
   loop over a map hold for every list, hence for every order. *)
Section HashMap.
  Context {K V : Type} (eqb : K -> K -> bool).
  (* HashMap::new() *)
  Definition hm_new : list (K * V) := [].
  (* m.get(&k) *)
  Fixpoint hm_get (m : list (K * V)) (k : K) : option V :=
    match m with
    | [] => None
    | (k', v) :: m' => if eqb k k' then Some v else hm_get m' k
    end.
  (* m.remove(&k): the entry of k disappears (the removed value is the result of
     the call; the translated bodies drop it) *)
  Definition hm_remove (m : list (K * V)) (k : K) : list (K * V) :=
    filter (fun kv => negb (eqb k (fst kv))) m.
  (* m.insert(k, v): "If the map did have this key present, the value is updated" *)
  Definition hm_insert (m : list (K * V)) (k : K) (v : V) : list (K * V) :=
    hm_remove m k ++ [(k, v)].
  (* m.clear() *)
  Definition hm_clear (m : list (K * V)) : list (K * V) := [].
  (* *m.entry(k).or_default() / .or_insert_with(f): the value of k, or the default
     (which the call inserts: the translator writes the entry back) *)
  Definition hm_get_or (m : list (K * V)) (k : K) (dflt : V) : V :=
    match hm_get m k with Some v => v | None => dflt end.
End HashMap.

(* HashMap<String, V>::get(name)  (self.model.get_model().get("g"), asts.get(key)) *)
Definition rs_map_get {V} (m : list (text * V)) (k : text) : option V := assoc k m.

(* for x in l { body } when the body has no break / return / `?` / panic *)
Definition rs_for_each {A S} (body : A -> S -> S) (l : list A) (s : S) : S :=
  fold_left (fun s a => body a s) l s.

(* v.iter().take(n) *)
Definition rs_take {A} (n : nat) (l : list A) : list A := firstn n l.
(* v.first() *)
Definition rs_first {A} (l : list A) : option A := hd_error l.
(* vec![a] / Vec::new() *)
Definition rs_vec_new {A} : list A := [].

(* ------------------------------------------------------------------ *)
(* model/function_map.rs and the rhai engine                            *)

(* enum OperatorFunction { Arg0(fn) .. Arg6(fn) }: a function pointer with its
   number of ImmutableString parameters.  The functions the model knows: the
   ones the harness adds (Enforce.ufun) and the entries of FunctionMap::default()
   (Enforce.builtin, by name). *)
Inductive opfun := OfUser (u : ufun) | OfBuiltin (n : text).

Definition ufun_arity (u : ufun) : nat := match u with UTrue => 1 | _ => 2 end.
(* FunctionMap::default(): keyGet2 / keyGet3 are Arg3, the others Arg2 *)
Definition builtin_arity (n : text) : nat :=
  if teqb n (T "keyGet2") || teqb n (T "keyGet3") then 3 else 2.
(* the N of ArgN *)
Definition opfun_arity (f : opfun) : nat :=
  match f with OfUser u => ufun_arity u | OfBuiltin n => builtin_arity n end.

(* struct FunctionMap { fm: HashMap<String, OperatorFunction> } *)
Definition fmap : Type := list (text * opfun).

(* FunctionMap::default()  (features glob / ip off), in the order of the source *)
Definition fm_default : fmap :=
  map (fun n => (n, OfBuiltin n))
      [T "keyMatch"; T "keyGet"; T "keyMatch2"; T "keyGet2"; T "keyMatch3"; T "keyGet3";
       T "keyMatch4"; T "keyMatch5"; T "regexMatch"].

(* fm.get_functions(): an iterator over (&String, &OperatorFunction) *)
Definition fm_get_functions (fm : fmap) : list (text * opfun) := fm.

(* what is registered in the engine under a name and a number of parameters:
   FnLink h  = move |a, b| rm.read().has_link(&a, &b, None)              (2 parameters)
               move |a, b, d| rm.read().has_link(&a, &b, Some(&d))       (3 parameters)
               with rm a clone of the manager handle h (the translator accepts
               exactly these two closure bodies for register_fn);
   FnOp f    = the function pointer of an OperatorFunction *)
Inductive efn := FnLink (h : handle) | FnOp (f : opfun).

(* rhai::Engine, as far as the enforcer uses it: the registrations, NEWEST FIRST.
   Engine::register_fn(name, f) files f under (name, number and types of its
   parameters) - every function here takes ImmutableStrings, so under
   (name, arity) - and REPLACES an earlier registration of the same signature:
   a call finds the first entry of its (name, arity).  *)
Definition engine : Type := list ((text * nat) * efn).

(* Engine::new_raw() *)
Definition eng_new_raw : engine := [].
(* engine.register_fn(name, f), f with `arity` parameters *)
Definition eng_register_fn (eng : engine) (name : text) (arity : nat) (f : efn) : engine :=
  ((name, arity), f) :: eng.
(* Enforcer::register_function(&mut engine, key, f):
   match f { OperatorFunction::ArgN(func) => engine.register_fn(key, func) }  (N = 0..6) *)
Definition eng_register_function (eng : engine) (key : text) (f : opfun) : engine :=
  eng_register_fn eng key (opfun_arity f) (FnOp f).
(* engine.register_global_module(CASBIN_PACKAGE.as_shared_module()): the
   arithmetic / logic / array / map packages and the native fn escape_assertion:
   operators and functions that the model's expression evaluator (Model/Expr.v)
   has built in; no function that a matcher can call by one of the names above *)
Definition casbin_package : unit := tt.
Definition eng_register_global_module (eng : engine) (m : unit) : engine := eng.

Fixpoint eng_find (k : text * nat) (eng : engine) : option efn :=
  match eng with
  | [] => None
  | (k', f) :: eng' => if gkey_eqb k k' then Some f else eng_find k eng'
  end.

(* a call f(args) from a matcher: all arguments must be strings (every
   registered function has ImmutableString parameters); the newest registration
   of (f, number of arguments) runs; none = "function not found" *)
Definition run_efn (fs : fstate) (f : efn) (ss : list text) : option eres :=
  match f with
  | FnLink h =>
    match ss with
    | [a; b] => Some (EV (VBool (handle_has_link fs h a b None)))
    | [a; b; d] => Some (EV (VBool (handle_has_link fs h a b (Some d))))
    | _ => None
    end
  | FnOp (OfUser u) => run_ufun u ss
  | FnOp (OfBuiltin n) => builtin n ss
  end.
Definition eng_call (fs : fstate) (eng : engine) (f : text) (args : list value) : option eres :=
  match all_strs args with
  | None => None
  | Some ss => match eng_find (f, length ss) eng with
               | Some fn => run_efn fs fn ss
               | None => None
               end
  end.

(* ------------------------------------------------------------------ *)
(* struct Enforcer, field by field                                      *)

(* rm: Arc<RwLock<dyn RoleManager>> = the DefaultRoleManager behind it: its
   links and its hierarchy bound.  Arc::new / RwLock::new / Box::new are the
   identity. *)
Definition rmval : Type := (rmgr * nat)%type.
(* DefaultRoleManager::new(max_hierarchy_level) *)
Definition rm_new (maxd : nat) : rmval := ([], maxd).
(* Arc::clone(&self.rm), as a handle: the enforcer's current manager *)
Definition rm_handle_cur : handle := HCur.

(* DefaultEffector (a unit struct); the effector is not a component of the model's state *)
Definition default_effector : effector_arg := tt.

(* Box<dyn Watcher>: the model's watcher records what it receives (e_wlog) *)
Definition watcher : Type := list event.
(* w.update(d) *)
Definition watcher_update (w : watcher) (d : evdata) : watcher := w ++ [d].

Definition events : Type := list (evkind * list callback).

Record renf := {
  r_model : modeldef;          (* model: Box<dyn Model> - the assertion map and the parsed matchers *)
  r_adapter : adapter;         (* adapter *)
  r_fm : fmap;                 (* fm *)
  r_eft : effector_arg;        (* eft *)
  r_rm : rmval;                (* rm *)
  r_enabled : bool;            (* enabled *)
  r_auto_save : bool;          (* auto_save *)
  r_auto_build : bool;         (* auto_build_role_links *)
  r_auto_notify : bool;        (* auto_notify_watcher   (feature watcher) *)
  r_watcher : option watcher;  (* watcher: Option<Box<dyn Watcher>>   (feature watcher) *)
  r_events : events;           (* events: HashMap<Event, Vec<EventCallback>> *)
  r_engine : engine;           (* engine *)
}.                             (* logger: feature logging is off *)

(* assignments to one field *)
Definition rset_events (x : renf) (v : events) : renf :=
  {| r_model := r_model x; r_adapter := r_adapter x; r_fm := r_fm x; r_eft := r_eft x; r_rm := r_rm x;
     r_enabled := r_enabled x; r_auto_save := r_auto_save x; r_auto_build := r_auto_build x;
     r_auto_notify := r_auto_notify x; r_watcher := r_watcher x; r_events := v; r_engine := r_engine x |}.
Definition rset_engine (x : renf) (v : engine) : renf :=
  {| r_model := r_model x; r_adapter := r_adapter x; r_fm := r_fm x; r_eft := r_eft x; r_rm := r_rm x;
     r_enabled := r_enabled x; r_auto_save := r_auto_save x; r_auto_build := r_auto_build x;
     r_auto_notify := r_auto_notify x; r_watcher := r_watcher x; r_events := r_events x; r_engine := v |}.
Definition rset_watcher (x : renf) (v : option watcher) : renf :=
  {| r_model := r_model x; r_adapter := r_adapter x; r_fm := r_fm x; r_eft := r_eft x; r_rm := r_rm x;
     r_enabled := r_enabled x; r_auto_save := r_auto_save x; r_auto_build := r_auto_build x;
     r_auto_notify := r_auto_notify x; r_watcher := v; r_events := r_events x; r_engine := r_engine x |}.
Definition rset_fm (x : renf) (v : fmap) : renf :=
  {| r_model := r_model x; r_adapter := r_adapter x; r_fm := v; r_eft := r_eft x; r_rm := r_rm x;
     r_enabled := r_enabled x; r_auto_save := r_auto_save x; r_auto_build := r_auto_build x;
     r_auto_notify := r_auto_notify x; r_watcher := r_watcher x; r_events := r_events x; r_engine := r_engine x |}.
(* the model store and the manager after a call that writes through `&mut *self.model` / `self.rm.write()` *)
Definition rset_links (x : renf) (md : model) (m : rmgr) : renf :=
  {| r_model := {| d_model := md; d_mexprs := d_mexprs (r_model x) |}; r_adapter := r_adapter x; r_fm := r_fm x;
     r_eft := r_eft x; r_rm := (m, snd (r_rm x));
     r_enabled := r_enabled x; r_auto_save := r_auto_save x; r_auto_build := r_auto_build x;
     r_auto_notify := r_auto_notify x; r_watcher := r_watcher x; r_events := r_events x; r_engine := r_engine x |}.

(* ------------------------------------------------------------------ *)
(* the state of the model that a Rust-level state stands for            *)

(* the role closures of the engine, newest first *)
Fixpoint eng_links (eng : engine) : list ((text * nat) * handle) :=
  match eng with
  | [] => []
  | (k, FnLink h) :: eng' => (k, h) :: eng_links eng'
  | (_, FnOp _) :: eng' => eng_links eng'
  end.
(* the functions that add_function put into the function map *)
Fixpoint fm_users (fm : fmap) : list (text * ufun) :=
  match fm with
  | [] => []
  | (n, OfUser u) :: fm' => (n, u) :: fm_users fm'
  | (_, OfBuiltin _) :: fm' => fm_users fm'
  end.

Definition abs_fs (x : renf) : fstate :=
  {| f_rm := fst (r_rm x); f_rm_max := snd (r_rm x);
     f_gfuns := eng_links (r_engine x); f_ufuns := fm_users (r_fm x) |}.

Definition abs (x : renf) : estate :=
  {| e_model := d_model (r_model x); e_mexprs := d_mexprs (r_model x); e_adapter := r_adapter x;
     e_fs := abs_fs x;
     e_enabled := r_enabled x; e_auto_save := r_auto_save x; e_auto_build := r_auto_build x;
     e_auto_notify := r_auto_notify x;
     e_callbacks := length (hm_get_or evkind_eqb (r_events x) KPolicyChange []);
     e_watcher := match r_watcher x with Some _ => true | None => false end;
     e_wlog := match r_watcher x with Some l => l | None => [] end |}.

(* the engine answers every call as Enforce.call_fn does on the abstraction,
   whatever the enforcer's role manager holds at the time of the call.
   (call_fn: an added function of that name if it takes this many arguments,
   else a role closure of that name and arity, else the default function.) *)
Definition with_rm (fs : fstate) (m : rmgr) (mx : nat) : fstate :=
  {| f_rm := m; f_rm_max := mx; f_gfuns := f_gfuns fs; f_ufuns := f_ufuns fs |}.
Definition eng_coherent (x : renf) : Prop :=
  forall m mx f args,
    eng_call (with_rm (abs_fs x) m mx) (r_engine x) f args = call_fn (with_rm (abs_fs x) m mx) f args.

(* ------------------------------------------------------------------ *)
(* calls into the parts translated earlier                              *)

(* a method of `impl CoreApi for Enforcer` that part 7 translated on the model's
   state (Gen/EnforcerGen.v), called from a body translated here: it runs on
   abs x, and what it may change (model, adapter, role manager, switches,
   watcher log) is taken over; events / fm / engine stay.  Only accepted by the
   translator for load_policy, which touches none of the three
   (PcEnforcer2Gen.core_call_load_policy). *)
Definition absorb (x : renf) (s : estate) : renf :=
  {| r_model := {| d_model := e_model s; d_mexprs := e_mexprs s |}; r_adapter := e_adapter s;
     r_fm := r_fm x; r_eft := r_eft x; r_rm := (f_rm (e_fs s), f_rm_max (e_fs s));
     r_enabled := e_enabled s; r_auto_save := e_auto_save s; r_auto_build := e_auto_build s;
     r_auto_notify := e_auto_notify s;
     r_watcher := if e_watcher s then Some (e_wlog s) else None;
     r_events := r_events x; r_engine := r_engine x |}.
Definition x_core_call (x : renf) (f : estate -> estate * outcome bool) : renf * outcome bool :=
  let (s', o) := f (abs x) in (absorb x s', o).

(* struct EnforceContext { r_type, p_type, e_type, m_type } is CachedRt.cgctx *)

(* CachedEnforcer (src/cached_enforcer.rs) is Model.Cached.cstate;
   ce.get_mut_cache().clear() is CachedRt.cg_clear *)
