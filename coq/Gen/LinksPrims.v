(* HAND-WRITTEN glue for the generated file Gen/LinksGen.v (tools/rs2coq_links.py,
   part 8: the role-link building of src/model/assertion.rs and the store
   mutators / link builders of src/model/default_model.rs).  Definitions only;
   the facts about them are in Proofs/RustLinksP.v and the obligations that tie
   the translated functions to the model in PinChecks/PcLinksGen.v.

   Like Gen/RustVec.v the operations restate what std / hashlink say and are NOT
   defined through the model's helpers (rmem, rremove, oset_insert, ins_new,
   count_us, link_rule, with_handle, with_policy, get_ast, set_ast).  What IS
   taken from the model, as the task allows:
   - the role manager behind `rm.write()` is the model's `rmgr` value
     (Model/RoleGraph.v: add_link, delete_link with its success flag);
   - the data types `assertion` (value, tokens, policy, rm handle), `handle`,
     `amap` = LinkedHashMap<String, Assertion> as the list of its entries in
     insertion order, `model` = HashMap<String, AssertionMap> as an association
     list, `event` = EventData (without ClearCache, which no function here
     distinguishes from the other `_` cases), `lerr` = Result<()> by error CLASS.

   Values
   - `Arc<RwLock<dyn RoleManager>>` is a `handle` (WHICH manager) and, for the
     one manager the function writes through (`rm`), the `rmgr` behind it is the
     state variable `st_rm`;  `Arc::clone(&rm)` is the identity on handles.
   - `&mut` references into the model are local copies that are written back
     (rs_model_set / rs_value_set / rs_ast_write_back) when their scope ends
     and before every `return`. *)
From CV Require Import Model.Base Model.RoleGraph Model.Enforce Model.Engine.
From CV Require Import Gen.RustStr Gen.RustVec.

(* ------------------------------------------------------------------ values *)
(* s.matches(c).count() for an ASCII char c: the number of bytes equal to c
   (an ASCII byte never occurs inside a multi-byte UTF-8 sequence) *)
Definition rs_count_char (c : ascii) (s : text) : nat :=
  length (filter (fun x => Ascii.eqb x c) s).
(* v.len() *)
Definition rs_len {A} (v : list A) : nat := length v.

(* LinkedHashSet<Vec<String>>: contains / insert / clear  (remove is
   RustVec.rs_oset_remove).  hashlink's insert: "If the set did have this value
   present, false is returned [and] the value is moved to the back" *)
Definition rs_oset_contains (s : list (list text)) (r : list text) : bool :=
  existsb (fun x => rs_vec_eq x r) s.
Definition rs_oset_insert (s : list (list text)) (r : list text) : list (list text) :=
  filter (fun x => negb (rs_vec_eq x r)) s ++ [r].
Definition rs_oset_clear : list (list text) := [].

(* ---------------------------------------------------------- the role manager *)
(* rm.write().add_link(a, b, d) *)
Definition rs_rm_add_link (m : rmgr) (a b : text) (d : option text) : rmgr := add_link m a b d.
(* rm.write().delete_link(a, b, d): Result<()>, the only error being
   RbacError::NotFound (default_role_manager.rs, pinned by PinChecks/PcRoleGraph.v) *)
Definition rs_rm_delete_link (m : rmgr) (a b : text) (d : option text) : rmgr * lerr :=
  match delete_link m a b d with
  | (m', true) => (m', LOk)
  | (m', false) => (m', LErr ERbac)
  end.

(* ------------------------------------------------------------- assertions *)
(* self.rm = h;   self.policy <- p  (through insert / remove / clear) *)
Definition rs_ast_set_rm (a : assertion) (h : handle) : assertion :=
  {| a_value := a_value a; a_tokens := a_tokens a; a_policy := a_policy a; a_handle := h |}.
Definition rs_ast_set_policy (a : assertion) (p : list rule) : assertion :=
  {| a_value := a_value a; a_tokens := a_tokens a; a_policy := p; a_handle := a_handle a |}.

(* ------------------------------------------------------------------- maps *)
(* self.model.get_mut(sec) and the write-back of the borrowed section *)
Definition rs_model_get_mut (md : model) (sec : text) : option amap := assoc sec md.
Definition rs_model_set (md : model) (sec : text) (am : amap) : model := assoc_set sec am md.

(* asts.values_mut(): the values in insertion order, each with its position (the
   position stands for the `&mut` reference: rs_value_set writes the value back) *)
Definition rs_values_mut {V} (am : list (text * V)) : list (nat * V) := rs_enumerate (map snd am).
Fixpoint rs_value_set {V} (am : list (text * V)) (i : nat) (v : V) : list (text * V) :=
  match am, i with
  | [], _ => []
  | (k, _) :: am', 0 => (k, v) :: am'
  | kv :: am', S i' => kv :: rs_value_set am' i' v
  end.

(* self.model.get_mut(sec).and_then(|m| m.get_mut(ptype)): a `&mut Assertion`
   inside the model = where it lives + its current value *)
Definition astborrow : Type := (text * text) * assertion.
Definition rs_ast_borrow (md : model) (sec pt : text) : option astborrow :=
  match rs_model_get_mut md sec with
  | Some am => match assoc pt am with
               | Some a => Some ((sec, pt), a)
               | None => None
               end
  | None => None
  end.
Definition rs_ast_write_back (md : model) (b : astborrow) : model :=
  match rs_model_get_mut md (fst (fst b)) with
  | Some am => rs_model_set md (fst (fst b)) (assoc_set (snd (fst b)) (snd b) am)
  | None => md
  end.
