(* Gallina counterparts of the Vec / LinkedHashSet operations and of the loop
   control flow used by the policy-store functions that tools/rs2coq.py
   translates (part 3: Gen/StoreGen.v).  Hand-written, definitions only; the
   general facts about them are in Proofs/RustVecP.v and the obligations that
   tie the translated functions to the model in PinChecks/PcStoreGen.v.

   Like Gen/RustStr.v, the operations restate what the std / hashlink
   documentation says and are deliberately NOT defined through the model's
   helpers (rmem, rremove, tset_insert, reqb, select_filtered, fmatch).

   Values
   - `Vec<T>` is `list T`, `String`/`&str` is `text`, `usize` is `nat`
     (unbounded: an overflow of `field_index + i` is outside the model).
   - `LinkedHashSet<T>` is the list of its elements in iteration order
     (duplicate-free by construction of the callers; nothing here needs it).
   - `.clone()`, `.to_vec()`, `.to_owned()`, `&`, `.iter()`, `.into_iter()`,
     `.iter().map(String::from).collect()` are the identity.

   Control flow.  A block of statements is a term of type `flow S R`:
     LNext s    it ran to its end; s = the values of the mutable locals that
                the enclosing loop carries from one iteration to the next
     LBreak s   it executed `break` (s as above)
     LReturn r  it executed `return r` (or produced the value of the function)
     LPanic     an index was out of range
   A `for` loop is `rs_for body l s`: a `fold_left` over the iterated list of
   an explicit state record - the loop-carried locals, a `stopped` flag set by
   `break`, a `returned` slot set by `return` - under an `option` whose `None`
   is the panic.  Once stopped / returned / panicked the remaining elements are
   skipped, which is exactly leaving the loop at that element.  The result is
   read back as `Done s | Returned r | Panicked`. *)
From CV Require Import Model.Base Gen.RustStr.

(* ------------------------------------------------------------------ values *)
(* v[i]: None = the panic "index out of bounds" *)
Definition rs_index {A} (v : list A) (i : nat) : option A := nth_error v i.
(* v.push(x) *)
Definition rs_push {A} (v : list A) (x : A) : list A := v ++ [x].
(* v.is_empty() *)
Definition rs_vec_is_empty {A} (v : list A) : bool := Nat.eqb (length v) 0.
(* a == b on Vec<String>: same length and equal element by element *)
Definition rs_vec_eq (a b : list text) : bool :=
  Nat.eqb (length a) (length b) && forallb (fun p => rs_eq (fst p) (snd p)) (combine a b).
(* v.iter().enumerate() *)
Definition rs_enumerate {A} (v : list A) : list (nat * A) := combine (seq 0 (length v)) v.

(* LinkedHashSet<Vec<String>>::remove(r): the entry equal to r disappears, the
   order of the others is kept *)
Definition rs_oset_remove (s : list (list text)) (r : list text) : list (list text) :=
  filter (fun x => negb (rs_vec_eq x r)) s.

(* LinkedHashSet<String>: new / insert / into_iter().collect().
   hashlink: "If the set did have this value present, ... the value is moved to
   the back": whatever entry equals x is dropped, x is appended. *)
Definition rs_set_new : list text := [].
Definition rs_set_insert (s : list text) (x : text) : list text :=
  filter (fun y => negb (rs_eq y x)) s ++ [x].
Definition rs_set_to_vec (s : list text) : list text := s.

(* ------------------------------------------------------------ control flow *)
Inductive flow (S R : Type) : Type :=
| LNext (s : S)
| LBreak (s : S)
| LReturn (r : R)
| LPanic.
Arguments LNext {S R} s.
Arguments LBreak {S R} s.
Arguments LReturn {S R} r.
Arguments LPanic {S R}.

Inductive loop_result (S R : Type) : Type :=
| Done (s : S)
| Returned (r : R)
| Panicked.
Arguments Done {S R} s.
Arguments Returned {S R} r.
Arguments Panicked {S R}.

Record loop_state (S R : Type) : Type :=
  { ls_vars : S; ls_stopped : bool; ls_returned : option R }.
Arguments ls_vars {S R} _.
Arguments ls_stopped {S R} _.
Arguments ls_returned {S R} _.

(* one element of the iterated list; None = panicked *)
Definition ls_step {A S R} (body : A -> S -> flow S R)
    (st : option (loop_state S R)) (x : A) : option (loop_state S R) :=
  match st with
  | None => None
  | Some st =>
    if ls_stopped st then Some st
    else match ls_returned st with
         | Some _ => Some st
         | None =>
           match body x (ls_vars st) with
           | LNext s => Some {| ls_vars := s; ls_stopped := false; ls_returned := None |}
           | LBreak s => Some {| ls_vars := s; ls_stopped := true; ls_returned := None |}
           | LReturn r => Some {| ls_vars := ls_vars st; ls_stopped := false; ls_returned := Some r |}
           | LPanic => None
           end
         end
  end.

(* for x in l { body }   (s = the loop-carried locals before the loop) *)
Definition rs_for {A S R} (body : A -> S -> flow S R) (l : list A) (s : S) : loop_result S R :=
  match fold_left (ls_step body) l
                  (Some {| ls_vars := s; ls_stopped := false; ls_returned := None |}) with
  | None => Panicked
  | Some st => match ls_returned st with
               | Some r => Returned r
               | None => Done (ls_vars st)
               end
  end.

(* l.into_iter().fold(init, |mut acc, x| { ..; acc }): a loop whose body is a
   closure (the translator rejects `break` / `return` inside it); None = panic *)
Definition rs_fold {A S} (body : A -> S -> flow S unit) (l : list A) (s : S) : option S :=
  match rs_for body l s with
  | Done s' => Some s'
  | Returned _ => None
  | Panicked => None
  end.

(* the body of a function: every path of a translated body ends in LReturn
   (the trailing expression counts as a return) or in LPanic *)
Definition rs_fn {R} (c : flow unit R) : option R :=
  match c with
  | LReturn r => Some r
  | LNext _ => None
  | LBreak _ => None
  | LPanic => None
  end.
