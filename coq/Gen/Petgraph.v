(* TRUSTED restatement, in terms of the model's `mgraph` (Model/RoleGraphM.v), of
   the third-party operations used by src/rbac/default_role_manager.rs:
   petgraph::stable_graph::StableDiGraph<String, EdgeVariant>, its visit map
   (fixedbitset::FixedBitSet), std VecDeque and std HashMap<String, V>.
   Hand-written, definitions only; each operation carries the documented
   behaviour it encodes.  tools/rs2coq_rm.py translates the source into
   Gen/RoleManagerGen.v over these operations (and Gen/RustIter.v, Gen/RustVec.v);
   Proofs/PetgraphP.v relates them to the model's own functions.

   Encoding of a StableDiGraph<String, EdgeVariant> as an `mgraph`
   - `m_nodes g` : the node weights in NODE-INDEX order.  The source never
     removes a node, so indices are handed out consecutively by add_node and
     index order is creation order.
   - a NodeIndex is represented by the WEIGHT (name) of its node.  This is
     faithful as long as the weights of a graph are pairwise different
     (`pg_wf`, preserved by every translated mutator: get_or_create_role only
     calls add_node for a name that is not yet in the graph).  An index is
     VALID for g when it is the name of a node of g; the operations that panic
     on an invalid index in petgraph are partial here (None).
   - `m_edges g` : the edges, NEWEST FIRST.  petgraph links a new edge at the
     head of the outgoing list of its source and of the incoming list of its
     target, and remove_edge unlinks in place: both adjacency lists of a node
     enumerate its edges newest first, i.e. in the order of `m_edges g`.
   - an EdgeIndex is represented by the POSITION of the edge in `m_edges g`.  It
     is meaningful only for the graph value it was obtained from (find_edge);
     the translator drops every edge index from scope when the graph is
     mutated, so no stale position is ever used.
   - EdgeVariant::Link / EdgeVariant::Match are the model's KLink / KMatch. *)
From CV Require Import Model.Base Model.RoleGraph Model.RoleGraphM Gen.RustStr Gen.RustVec Gen.RustIter.

Definition node_index := text.
Definition edge_index := nat.
Inductive direction := Outgoing | Incoming.

(* --------------------------------------------------------- StableDiGraph *)
(* StableDiGraph::default() / new(): no node, no edge *)
Definition pg_new : mgraph := {| m_nodes := []; m_edges := [] |}.

(* is i the index of a node of g *)
Definition pg_valid (g : mgraph) (i : node_index) : bool := existsb (rs_eq i) (m_nodes g).

(* g.add_node(w): "Add a node with associated data weight to the graph. Return
   the index of the new node."  (appended: no node was ever removed) *)
Definition pg_add_node (g : mgraph) (w : text) : mgraph * node_index :=
  ({| m_nodes := m_nodes g ++ [w]; m_edges := m_edges g |}, w).

(* g.node_indices(): the node indices, in index order *)
Definition pg_node_indices (g : mgraph) : list node_index := m_nodes g.
(* g.node_weights(): the node weights, in index order *)
Definition pg_node_weights (g : mgraph) : list text := m_nodes g.

(* g[i] (Index<NodeIndex>): the weight of node i; "Panics if the node doesn't exist" *)
Definition pg_node_weight (g : mgraph) (i : node_index) : option text :=
  if pg_valid g i then Some i else None.

(* position, counted from k, of the first edge a -> b *)
Fixpoint pg_first_edge (a b : node_index) (l : list medge) (k : nat) : option nat :=
  match l with
  | [] => None
  | e :: r => if rs_eq (e_src e) a && rs_eq (e_dst e) b then Some k else pg_first_edge a b r (S k)
  end.
(* g.find_edge(a, b): "Lookup an edge from a to b": walks the outgoing list of a
   (newest first) up to the first edge whose target is b; None when there is
   none (also when a is not a node) *)
Definition pg_find_edge (g : mgraph) (a b : node_index) : option edge_index :=
  pg_first_edge a b (m_edges g) 0.

(* g[e] (Index<EdgeIndex>): the weight of edge e; panics if there is no such edge *)
Definition pg_edge_weight (g : mgraph) (e : edge_index) : option ekind :=
  match nth_error (m_edges g) e with Some ed => Some (e_kind ed) | None => None end.

(* g.add_edge(a, b, w): "Add an edge from a to b to the graph, with its
   associated data weight.  Return the index of the new edge.  Panics if any of
   the nodes don't exist.  StableGraph allows adding parallel edges." *)
Definition pg_add_edge (g : mgraph) (a b : node_index) (w : ekind) : option (mgraph * edge_index) :=
  if pg_valid g a && pg_valid g b
  then Some ({| m_nodes := m_nodes g; m_edges := {| e_src := a; e_dst := b; e_kind := w |} :: m_edges g |}, 0)
  else None.

Fixpoint pg_set_nth_kind (l : list medge) (k : nat) (w : ekind) : list medge :=
  match l, k with
  | [], _ => []
  | e :: r, 0 => {| e_src := e_src e; e_dst := e_dst e; e_kind := w |} :: r
  | e :: r, S k' => e :: pg_set_nth_kind r k' w
  end.
(* g.update_edge(a, b, w): "Add or update an edge from a to b.  If the edge
   already exists, its weight is updated.  Return the index of the affected
   edge.  Panics if any of the nodes doesn't exist." *)
Definition pg_update_edge (g : mgraph) (a b : node_index) (w : ekind) : option (mgraph * edge_index) :=
  match pg_find_edge g a b with
  | Some ix => Some ({| m_nodes := m_nodes g; m_edges := pg_set_nth_kind (m_edges g) ix w |}, ix)
  | None => pg_add_edge g a b w
  end.

Fixpoint pg_remove_nth (l : list medge) (k : nat) : list medge :=
  match l, k with
  | [], _ => []
  | _ :: r, 0 => r
  | e :: r, S k' => e :: pg_remove_nth r k'
  end.
(* g.remove_edge(e): "Remove an edge and return its edge weight, or None if it
   didn't exist.  Invalidates the edge index e but no other."  (the other edges
   keep their relative order in both adjacency lists) *)
Definition pg_remove_edge (g : mgraph) (e : edge_index) : mgraph * option ekind :=
  match nth_error (m_edges g) e with
  | Some ed => ({| m_nodes := m_nodes g; m_edges := pg_remove_nth (m_edges g) e |}, Some (e_kind ed))
  | None => (g, None)
  end.

(* g.edges_directed(a, dir): "Outgoing: all edges from a.  Incoming: all edges
   to a.  Produces an empty iterator if the node a doesn't exist."  Iterator
   element type EdgeReference; adjacency-list order = newest first *)
Definition pg_edges_directed (g : mgraph) (a : node_index) (dir : direction) : list medge :=
  match dir with
  | Outgoing => filter (fun e => rs_eq (e_src e) a) (m_edges g)
  | Incoming => filter (fun e => rs_eq (e_dst e) a) (m_edges g)
  end.
(* EdgeReference: edge.weight(), edge.source(), edge.target() *)
Definition er_weight (e : medge) : ekind := e_kind e.
Definition er_source (e : medge) : node_index := e_src e.
Definition er_target (e : medge) : node_index := e_dst e.

(* g.neighbors_directed(a, dir): the other end point of each edge of
   edges_directed(a, dir), in the same order *)
Definition pg_neighbors_directed (g : mgraph) (a : node_index) (dir : direction) : list node_index :=
  match dir with
  | Outgoing => map e_dst (pg_edges_directed g a Outgoing)
  | Incoming => map e_src (pg_edges_directed g a Incoming)
  end.

(* matches!(w, EdgeVariant::X) *)
Definition ek_is (w k : ekind) : bool :=
  match w, k with KLink, KLink => true | KMatch, KMatch => true | _, _ => false end.

(* ------------------------------------------------ visit map (FixedBitSet) *)
(* g.visit_map(): a FixedBitSet of length g.node_bound(), no bit set;
   `vm_bound` = the indices below node_bound, `vm_seen` = the bits set so far,
   in the order in which they were set *)
Record visit_map := { vm_bound : list node_index; vm_seen : list node_index }.
Definition pg_visit_map (g : mgraph) : visit_map := {| vm_bound := m_nodes g; vm_seen := [] |}.
(* m.visit(x): "Mark x as visited.  Return true if this is the first visit,
   false otherwise."  FixedBitSet::put panics when the bit is out of bounds *)
Definition vm_visit (m : visit_map) (x : node_index) : option (visit_map * bool) :=
  if existsb (rs_eq x) (vm_bound m)
  then Some (if existsb (rs_eq x) (vm_seen m) then (m, false)
             else ({| vm_bound := vm_bound m; vm_seen := vm_seen m ++ [x] |}, true))
  else None.

(* -------------------------------------------------------------- VecDeque *)
Definition dq_new {A} : list A := [].
Definition dq_push_front {A} (q : list A) (x : A) : list A := x :: q.
Definition dq_push_back {A} (q : list A) (x : A) : list A := q ++ [x].
(* q.pop_front(): "Removes the first element and returns it, or None if the deque is empty" *)
Definition dq_pop_front {A} (q : list A) : list A * option A :=
  match q with [] => ([], None) | x :: r => (r, Some x) end.

(* ----------------------------------------------------- HashMap<String, V> *)
(* a map is a list of (key, value) with pairwise different keys; the position
   of a binding has no meaning (iteration goes through `ord`) *)
Definition hashmap (V : Type) := list (text * V).
Definition hm_new {V} : hashmap V := [].
(* m.get(k) *)
Fixpoint hm_get {V} (m : hashmap V) (k : text) : option V :=
  match m with
  | [] => None
  | (k', v) :: r => if rs_eq k k' then Some v else hm_get r k
  end.
(* m[k] panics when k is absent: hm_get, None = the panic *)
(* m.contains_key(k) *)
Definition hm_contains_key {V} (m : hashmap V) (k : text) : bool := rs_is_some (hm_get m k).
(* m.insert(k, v), the returned old value dropped *)
Fixpoint hm_insert {V} (m : hashmap V) (k : text) (v : V) : hashmap V :=
  match m with
  | [] => [(k, v)]
  | (k', v') :: r => if rs_eq k k' then (k', v) :: r else (k', v') :: hm_insert r k v
  end.
(* m.entry(k).or_insert(d) / .or_default(): "Ensures a value is in the entry by
   inserting the default if empty, and returns a mutable reference to the value
   in the entry": the map afterwards, and the value now bound to k *)
Definition hm_entry_or {V} (m : hashmap V) (k : text) (d : V) : hashmap V * V :=
  match hm_get m k with
  | Some v => (m, v)
  | None => (hm_insert m k d, d)
  end.
(* hash_map::Entry.  `m.entry(k)` borrows the slot of k; the translator reads it back as
   `hm_get m k` (`Entry::Occupied(e)` = Some v, `*e.get()` = v; `Entry::Vacant(e)` = None) and
   translates `e.insert(v)` on the vacant entry as `hm_insert m k v`. *)
(* m.clear() is hm_new *)
(* m.keys(): every key once, in an unspecified order *)
Definition hm_keys {V} (ord : list text -> list text) (m : hashmap V) : list text := ord (map fst m).
