(* GENERATED on every run by tools/rs2coq.py (tools/rs2coq_fsave.py) from /repo/src/adapter/file_adapter.rs
   (file reading, save_policy_file, save / clear / incremental methods) and string_adapter.rs (save / clear /
   incremental methods) - do not edit.  cfg: feature runtime-tokio, not runtime-async-std, not wasm32.
   st_<field> = the fields of self, st_m = the model behind `m: &mut dyn Model`, st_w = the world of Gen/FsRt.v
   (file system, log of calls, fault script); the result is `option (final state * value)`, None = a panic;
   a `Result<T>` is a `res casbin_error T`. *)
From CV Require Import Model.Base Model.Csv Model.Enforce Model.FileSave.
From CV Require Import Gen.RustStr Gen.RustVec Gen.StrFnGen Gen.AdaptersPrims Gen.AdaptersGen Gen.FsRt.

(* src/adapter/file_adapter.rs, impl<P> FileAdapter<P> load_policy_file *)
Definition gen_load_policy_file (st_file_path : text) (st_is_filtered : bool) (st_m : model) (st_w : world) (v_handler : model -> text -> option (model * unit)) : option ((text * bool * model * world) * (res casbin_error unit)) :=
 rs_fn (let '(st_w, ix1) := fs_open st_w st_file_path in
 (match ix1 with
 | ROk ix2 => (let v_f := ix2 in
 (let v_lines := (fs_lines st_w v_f) in
 (match rs_while_some (S (length v_lines)) (fun '(v_lines, st_m, st_w) =>
 (let '(st_w, v_lines, ix4) := fs_next_line st_w v_lines in
 (match ix4 with
 | ROk ix5 => (LNext ((v_lines, st_m, st_w), ix5))
 | RErr ix6 => (LReturn ((st_file_path, st_is_filtered, st_m, st_w), (RErr (ErrIo ix6)))) end)))
 (fun v_line '(v_lines, st_m, st_w) =>
 (match v_handler st_m v_line with
 | Some (st_m, ix7) => (LNext (v_lines, st_m, st_w))
 | None => LPanic end))
 (v_lines, st_m, st_w) with
 | Done (v_lines, st_m, st_w) => (LReturn ((st_file_path, st_is_filtered, st_m, st_w), (ROk tt)))
 | Returned ret_ => LReturn ret_
 | Panicked => LPanic end)))
 | RErr ix3 => (LReturn ((st_file_path, st_is_filtered, st_m, st_w), (RErr (ErrIo ix3)))) end)).

(* src/adapter/file_adapter.rs, impl<P> FileAdapter<P> load_filtered_policy_file *)
Definition gen_load_filtered_policy_file (st_file_path : text) (st_is_filtered : bool) (st_m : model) (st_w : world) (v_filter_p : list text) (v_filter_g : list text) (v_handler : model -> text -> list text -> list text -> option (model * bool)) : option ((model * world) * (res casbin_error bool)) :=
 rs_fn (let '(st_w, ix1) := fs_open st_w st_file_path in
 (match ix1 with
 | ROk ix2 => (let v_f := ix2 in
 (let v_lines := (fs_lines st_w v_f) in
 (let v_is_filtered := false in
 (match rs_while_some (S (length v_lines)) (fun '(v_is_filtered, v_lines, st_m, st_w) =>
 (let '(st_w, v_lines, ix4) := fs_next_line st_w v_lines in
 (match ix4 with
 | ROk ix5 => (LNext ((v_is_filtered, v_lines, st_m, st_w), ix5))
 | RErr ix6 => (LReturn ((st_m, st_w), (RErr (ErrIo ix6)))) end)))
 (fun v_line '(v_is_filtered, v_lines, st_m, st_w) =>
 (match v_handler st_m v_line v_filter_p v_filter_g with
 | Some (st_m, ix7) => (let v_is_filtered := (if ix7 then (let v_is_filtered := true in
 v_is_filtered) else v_is_filtered) in
 (LNext (v_is_filtered, v_lines, st_m, st_w)))
 | None => LPanic end))
 (v_is_filtered, v_lines, st_m, st_w) with
 | Done (v_is_filtered, v_lines, st_m, st_w) => (LReturn ((st_m, st_w), (ROk v_is_filtered)))
 | Returned ret_ => LReturn ret_
 | Panicked => LPanic end))))
 | RErr ix3 => (LReturn ((st_m, st_w), (RErr (ErrIo ix3)))) end)).

(* src/adapter/file_adapter.rs, impl<P> FileAdapter<P> save_policy_file *)
Definition gen_save_policy_file (st_file_path : text) (st_is_filtered : bool) (st_w : world) (v_text : text) : option (world * (res casbin_error unit)) :=
 rs_fn (let v_tmp_path := st_file_path in
 (let v_tmp_path := rs_os_push v_tmp_path (T ".tmp") in
 (match rs_fn (let '(st_w, ix1) := fs_create st_w v_tmp_path in
 (match ix1 with
 | ROk ix2 => (let v_file := ix2 in
 (let '(st_w, ix4) := fs_write_all st_w v_file v_text in
 (match ix4 with
 | ROk _ => (let '(st_w, ix7) := fs_flush st_w v_file in
 (match ix7 with
 | ROk _ => (LReturn (st_w, (ROk tt)))
 | RErr ix9 => (LReturn (st_w, (RErr ix9))) end))
 | RErr ix6 => (LReturn (st_w, (RErr ix6))) end)))
 | RErr ix3 => (LReturn (st_w, (RErr ix3))) end)) with
 | Some (st_w, ix10) => (let v_written := ix10 in
 (match v_written with
 | RErr v_e => (let '(st_w, ix11) := fs_remove_file st_w v_tmp_path in
 (LReturn (st_w, (RErr (ErrIo v_e)))))
 | ROk _ => (let '(st_w, ix12) := fs_rename st_w v_tmp_path st_file_path in
 (match ix12 with
 | ROk _ => (LReturn (st_w, (ROk tt)))
 | RErr ix14 => (LReturn (st_w, (RErr (ErrIo ix14)))) end)) end))
 | None => LPanic end))).

(* src/adapter/file_adapter.rs, impl<P> Adapter for FileAdapter<P> load_policy *)
Definition gen_file_load_policy (st_file_path : text) (st_is_filtered : bool) (st_m : model) (st_w : world) : option ((text * bool * model * world) * (res casbin_error unit)) :=
 rs_fn (match gen_load_policy_file st_file_path st_is_filtered st_m st_w gen_file_load_policy_line with
 | Some ((st_file_path, st_is_filtered, st_m, st_w), ix1) => (match ix1 with
 | ROk _ => (let st_is_filtered := false in
 (LReturn ((st_file_path, st_is_filtered, st_m, st_w), (ROk tt))))
 | RErr ix3 => (LReturn ((st_file_path, st_is_filtered, st_m, st_w), (RErr ix3))) end)
 | None => LPanic end).

(* src/adapter/file_adapter.rs, impl<P> Adapter for FileAdapter<P> load_filtered_policy *)
Definition gen_file_load_filtered_policy (st_file_path : text) (st_is_filtered : bool) (st_m : model) (st_w : world) (v_f_p : list text) (v_f_g : list text) : option ((text * bool * model * world) * (res casbin_error unit)) :=
 rs_fn (match gen_load_filtered_policy_file st_file_path st_is_filtered st_m st_w v_f_p v_f_g gen_file_load_filtered_policy_line with
 | Some ((st_m, st_w), ix1) => (match ix1 with
 | ROk ix2 => (let st_is_filtered := ix2 in
 (LReturn ((st_file_path, st_is_filtered, st_m, st_w), (ROk tt))))
 | RErr ix3 => (LReturn ((st_file_path, st_is_filtered, st_m, st_w), (RErr ix3))) end)
 | None => LPanic end).

(* src/adapter/file_adapter.rs, impl<P> Adapter for FileAdapter<P> save_policy *)
Definition gen_file_save_policy (st_file_path : text) (st_is_filtered : bool) (st_m : model) (st_w : world) : option ((text * bool * model * world) * (res casbin_error unit)) :=
 rs_fn (if (rs_is_empty st_file_path)
 then (LReturn ((st_file_path, st_is_filtered, st_m, st_w), (RErr (ErrIo (IoNew (T "Other") (T "save policy failed, file path is empty"))))))
 else (let v_policies := ([] : text) in
 (match (rs_ok_or_else (rs_model_get st_m (T "p")) (fun _ => (ModelErrP (T "Missing policy definition in conf file")))) with
 | ROk ix1 => (let v_ast_map := ix1 in
 (match rs_for (fun '(v_ptype, v_ast) v_policies =>
 (match rs_for (fun v_rule v_policies =>
 (let '(v_policies, ix3) := rs_writeln v_policies (rs_fmt [(T ""); (T ", "); (T "")] [v_ptype; (rs_join (map (fun v_v =>
 (gen_csv_field v_v)) v_rule) (T ","))]) in
 (match (rs_map_err ix3 (fun v_e => (AdapterErr (BoxFmt v_e)))) with
 | ROk _ => (LNext v_policies)
 | RErr ix5 => (LReturn ((st_file_path, st_is_filtered, st_m, st_w), (RErr (ErrAdapter ix5)))) end)))
 (rs_ast_policy v_ast) v_policies with
 | Done v_policies => (LNext v_policies)
 | Returned ret_ => LReturn ret_
 | Panicked => LPanic end))
 v_ast_map v_policies with
 | Done v_policies => (match (rs_model_get st_m (T "g")) with
 | Some v_ast_map => (match rs_for (fun '(v_ptype, v_ast) v_policies =>
 (match rs_for (fun v_rule v_policies =>
 (let '(v_policies, ix6) := rs_writeln v_policies (rs_fmt [(T ""); (T ", "); (T "")] [v_ptype; (rs_join (map (fun v_v =>
 (gen_csv_field v_v)) v_rule) (T ","))]) in
 (match (rs_map_err ix6 (fun v_e => (AdapterErr (BoxFmt v_e)))) with
 | ROk _ => (LNext v_policies)
 | RErr ix8 => (LReturn ((st_file_path, st_is_filtered, st_m, st_w), (RErr (ErrAdapter ix8)))) end)))
 (rs_ast_policy v_ast) v_policies with
 | Done v_policies => (LNext v_policies)
 | Returned ret_ => LReturn ret_
 | Panicked => LPanic end))
 v_ast_map v_policies with
 | Done v_policies => (match gen_save_policy_file st_file_path st_is_filtered st_w v_policies with
 | Some (st_w, ix9) => (match ix9 with
 | ROk _ => (LReturn ((st_file_path, st_is_filtered, st_m, st_w), (ROk tt)))
 | RErr ix11 => (LReturn ((st_file_path, st_is_filtered, st_m, st_w), (RErr ix11))) end)
 | None => LPanic end)
 | Returned ret_ => LReturn ret_
 | Panicked => LPanic end)
 | None => (match gen_save_policy_file st_file_path st_is_filtered st_w v_policies with
 | Some (st_w, ix12) => (match ix12 with
 | ROk _ => (LReturn ((st_file_path, st_is_filtered, st_m, st_w), (ROk tt)))
 | RErr ix14 => (LReturn ((st_file_path, st_is_filtered, st_m, st_w), (RErr ix14))) end)
 | None => LPanic end) end)
 | Returned ret_ => LReturn ret_
 | Panicked => LPanic end))
 | RErr ix2 => (LReturn ((st_file_path, st_is_filtered, st_m, st_w), (RErr (ErrModel ix2)))) end))).

(* src/adapter/file_adapter.rs, impl<P> Adapter for FileAdapter<P> clear_policy *)
Definition gen_file_clear_policy (st_file_path : text) (st_is_filtered : bool) (st_w : world) : option ((text * bool * world) * (res casbin_error unit)) :=
 rs_fn (match gen_save_policy_file st_file_path st_is_filtered st_w ([] : text) with
 | Some (st_w, ix1) => (match ix1 with
 | ROk _ => (LReturn ((st_file_path, st_is_filtered, st_w), (ROk tt)))
 | RErr ix3 => (LReturn ((st_file_path, st_is_filtered, st_w), (RErr ix3))) end)
 | None => LPanic end).

(* src/adapter/file_adapter.rs, impl<P> Adapter for FileAdapter<P> add_policy *)
Definition gen_file_add_policy (st_file_path : text) (st_is_filtered : bool) (v__sec : text) (v__ptype : text) (v__rule : list text) : option ((text * bool) * (res casbin_error bool)) :=
 rs_fn (LReturn ((st_file_path, st_is_filtered), (ROk true))).

(* src/adapter/file_adapter.rs, impl<P> Adapter for FileAdapter<P> add_policies *)
Definition gen_file_add_policies (st_file_path : text) (st_is_filtered : bool) (v__sec : text) (v__ptype : text) (v__rules : list rule) : option ((text * bool) * (res casbin_error bool)) :=
 rs_fn (LReturn ((st_file_path, st_is_filtered), (ROk true))).

(* src/adapter/file_adapter.rs, impl<P> Adapter for FileAdapter<P> remove_policy *)
Definition gen_file_remove_policy (st_file_path : text) (st_is_filtered : bool) (v__sec : text) (v__ptype : text) (v__rule : list text) : option ((text * bool) * (res casbin_error bool)) :=
 rs_fn (LReturn ((st_file_path, st_is_filtered), (ROk true))).

(* src/adapter/file_adapter.rs, impl<P> Adapter for FileAdapter<P> remove_policies *)
Definition gen_file_remove_policies (st_file_path : text) (st_is_filtered : bool) (v__sec : text) (v__ptype : text) (v__rule : list rule) : option ((text * bool) * (res casbin_error bool)) :=
 rs_fn (LReturn ((st_file_path, st_is_filtered), (ROk true))).

(* src/adapter/file_adapter.rs, impl<P> Adapter for FileAdapter<P> remove_filtered_policy *)
Definition gen_file_remove_filtered_policy (st_file_path : text) (st_is_filtered : bool) (v__sec : text) (v__ptype : text) (v__field_index : nat) (v__field_values : list text) : option ((text * bool) * (res casbin_error bool)) :=
 rs_fn (LReturn ((st_file_path, st_is_filtered), (ROk true))).

(* src/adapter/file_adapter.rs, impl<P> Adapter for FileAdapter<P> is_filtered *)
Definition gen_file_is_filtered (st_file_path : text) (st_is_filtered : bool) : option bool :=
 rs_fn (LReturn st_is_filtered).

(* src/adapter/string_adapter.rs, impl Adapter for StringAdapter save_policy *)
Definition gen_str_save_policy (st_policy : text) (st_is_filtered : bool) (st_m : model) : option ((text * bool * model) * (res casbin_error unit)) :=
 rs_fn (let v_policies := ([] : text) in
 (match (rs_ok_or_else (rs_model_get st_m (T "p")) (fun _ => (ModelErrP (T "Missing policy definition in conf file")))) with
 | ROk ix1 => (let v_ast_map := ix1 in
 (match rs_for (fun '(v_ptype, v_ast) v_policies =>
 (match rs_for (fun v_rule v_policies =>
 (let '(v_policies, ix3) := rs_writeln v_policies (rs_fmt [(T ""); (T ", "); (T "")] [v_ptype; (rs_join (map (fun v_v =>
 (gen_csv_field v_v)) v_rule) (T ", "))]) in
 (match (rs_map_err ix3 (fun v_e => (AdapterErr (BoxFmt v_e)))) with
 | ROk _ => (LNext v_policies)
 | RErr ix5 => (LReturn ((st_policy, st_is_filtered, st_m), (RErr (ErrAdapter ix5)))) end)))
 (rs_ast_policy v_ast) v_policies with
 | Done v_policies => (LNext v_policies)
 | Returned ret_ => LReturn ret_
 | Panicked => LPanic end))
 v_ast_map v_policies with
 | Done v_policies => (match (rs_model_get st_m (T "g")) with
 | Some v_ast_map => (match rs_for (fun '(v_ptype, v_ast) v_policies =>
 (match rs_for (fun v_rule v_policies =>
 (let '(v_policies, ix6) := rs_writeln v_policies (rs_fmt [(T ""); (T ", "); (T "")] [v_ptype; (rs_join (map (fun v_v =>
 (gen_csv_field v_v)) v_rule) (T ", "))]) in
 (match (rs_map_err ix6 (fun v_e => (AdapterErr (BoxFmt v_e)))) with
 | ROk _ => (LNext v_policies)
 | RErr ix8 => (LReturn ((st_policy, st_is_filtered, st_m), (RErr (ErrAdapter ix8)))) end)))
 (rs_ast_policy v_ast) v_policies with
 | Done v_policies => (LNext v_policies)
 | Returned ret_ => LReturn ret_
 | Panicked => LPanic end))
 v_ast_map v_policies with
 | Done v_policies => (let st_policy := v_policies in
 (LReturn ((st_policy, st_is_filtered, st_m), (ROk tt))))
 | Returned ret_ => LReturn ret_
 | Panicked => LPanic end)
 | None => (let st_policy := v_policies in
 (LReturn ((st_policy, st_is_filtered, st_m), (ROk tt)))) end)
 | Returned ret_ => LReturn ret_
 | Panicked => LPanic end))
 | RErr ix2 => (LReturn ((st_policy, st_is_filtered, st_m), (RErr (ErrModel ix2)))) end)).

(* src/adapter/string_adapter.rs, impl Adapter for StringAdapter clear_policy *)
Definition gen_str_clear_policy (st_policy : text) (st_is_filtered : bool) : option ((text * bool) * (res casbin_error unit)) :=
 rs_fn (let st_policy := ([] : text) in
 (let st_is_filtered := false in
 (LReturn ((st_policy, st_is_filtered), (ROk tt))))).

(* src/adapter/string_adapter.rs, impl Adapter for StringAdapter add_policy *)
Definition gen_str_add_policy (st_policy : text) (st_is_filtered : bool) (v__sec : text) (v__ptype : text) (v__rule : list text) : option ((text * bool) * (res casbin_error bool)) :=
 rs_fn (LReturn ((st_policy, st_is_filtered), (RErr (ErrAdapter (AdapterErr (rs_box_new_adapter (AdapterErr (BoxStr (T "not implemented"))))))))).

(* src/adapter/string_adapter.rs, impl Adapter for StringAdapter add_policies *)
Definition gen_str_add_policies (st_policy : text) (st_is_filtered : bool) (v__sec : text) (v__ptype : text) (v__rules : list rule) : option ((text * bool) * (res casbin_error bool)) :=
 rs_fn (LReturn ((st_policy, st_is_filtered), (RErr (ErrAdapter (AdapterErr (rs_box_new_adapter (AdapterErr (BoxStr (T "not implemented"))))))))).

(* src/adapter/string_adapter.rs, impl Adapter for StringAdapter remove_policy *)
Definition gen_str_remove_policy (st_policy : text) (st_is_filtered : bool) (v__sec : text) (v__ptype : text) (v__rule : list text) : option ((text * bool) * (res casbin_error bool)) :=
 rs_fn (LReturn ((st_policy, st_is_filtered), (RErr (ErrAdapter (AdapterErr (rs_box_new_adapter (AdapterErr (BoxStr (T "not implemented"))))))))).

(* src/adapter/string_adapter.rs, impl Adapter for StringAdapter remove_policies *)
Definition gen_str_remove_policies (st_policy : text) (st_is_filtered : bool) (v__sec : text) (v__ptype : text) (v__rule : list rule) : option ((text * bool) * (res casbin_error bool)) :=
 rs_fn (LReturn ((st_policy, st_is_filtered), (RErr (ErrAdapter (AdapterErr (rs_box_new_adapter (AdapterErr (BoxStr (T "not implemented"))))))))).

(* src/adapter/string_adapter.rs, impl Adapter for StringAdapter remove_filtered_policy *)
Definition gen_str_remove_filtered_policy (st_policy : text) (st_is_filtered : bool) (v__sec : text) (v__ptype : text) (v__field_index : nat) (v__field_values : list text) : option ((text * bool) * (res casbin_error bool)) :=
 rs_fn (LReturn ((st_policy, st_is_filtered), (RErr (ErrAdapter (AdapterErr (rs_box_new_adapter (AdapterErr (BoxStr (T "not implemented"))))))))).

(* src/adapter/string_adapter.rs, impl Adapter for StringAdapter is_filtered *)
Definition gen_str_is_filtered (st_policy : text) (st_is_filtered : bool) : option bool :=
 rs_fn (LReturn st_is_filtered).

Definition gen_fsave_translated : bool := true.
