(* Gallina counterparts, on `text` (= the UTF-8 bytes of a Rust `&str`/`String`),
   of the std string operations used by the small string functions that
   tools/rs2coq.py translates (Gen/StrFnGen.v).  Hand-written, definitions only;
   the facts that relate them to the model's own helpers are in
   PinChecks/PcStrFnGen.v.

   They are deliberately NOT defined through the model's helpers (before_star,
   is_prefix, strip_prefix, span_not, memb): each one restates what the std
   documentation says, so that the equations of PcStrFnGen.v have content.

   Scope notes
   - `rs_find_char` / `rs_contains_char` take ONE BYTE.  The translator only
     accepts ASCII `char` literals; an ASCII byte never occurs inside a
     multi-byte UTF-8 sequence, so "first byte equal to c" is exactly
     `str::find(c)` (which returns a byte index) for such a c.
   - `rs_slice_to s i` is `&s[..i]` when it does not panic (i <= len, i on a
     character boundary).  The translator only accepts `&e[..i]` when `i` was
     bound by `if let Some(i) = e.find('c')` on the SAME expression e, which
     guarantees both conditions, so the panic case is unreachable in
     translated code.
   - `rs_trim_end` is the model's `Csv.trim_end`: it removes the ASCII members
     of Unicode White_Space (9-13, 32).  Rust's `str::trim_end` is
     Unicode-aware (it also removes U+0085, U+00A0, U+1680, U+2000-200A, U+2028,
     U+2029, U+202F, U+205F, U+3000); text ENDING in non-ASCII white space is
     outside the byte-level model, exactly as stated in Model/Csv.v.
   - `.to_string()`, `.to_owned()`, `.into()`, `Cow::Owned`, `Cow::Borrowed`,
     `&` are the identity on `text`. *)
From CV Require Import Model.Base Model.Csv.

(* s.find(c): byte index of the first occurrence *)
Fixpoint rs_find_char (c : ascii) (s : text) : option nat :=
  match s with
  | [] => None
  | d :: r => if Ascii.eqb d c then Some 0
              else match rs_find_char c r with Some i => Some (S i) | None => None end
  end.

(* s.contains(c) *)
Definition rs_contains_char (c : ascii) (s : text) : bool :=
  match rs_find_char c s with Some _ => true | None => false end.

(* &s[..i] *)
Definition rs_slice_to (s : text) (i : nat) : text := firstn i s.

(* s.starts_with(p): the first |p| bytes of s are p *)
Definition rs_starts_with (s p : text) : bool := teqb (firstn (length p) s) p.

(* s.strip_prefix(p): "If the string starts with the pattern prefix, returns
   the substring after the prefix, wrapped in Some" *)
Definition rs_strip_prefix (s p : text) : option text :=
  if rs_starts_with s p then Some (skipn (length p) s) else None.

(* s.is_empty() *)
Definition rs_is_empty (s : text) : bool := Nat.eqb (length s) 0.

(* s.trim_end()  (ASCII white space only, see above) *)
Definition rs_trim_end (s : text) : text := Csv.trim_end s.

(* a == b on strings *)
Definition rs_eq (a b : text) : bool := teqb a b.

(* format!("<pre>{}<post>", v) *)
Definition rs_format1 (pre post v : text) : text := pre ++ v ++ post.
