(* GENERATED on every run by tools/rs2coq_cached.py from /repo/src/cached_enforcer.rs
   (and clear_cache of /repo/src/emitter.rs) - do not edit.
   features: cached on, explain off, incremental on, logging off, watcher on *)
From CV Require Import Model.Base Model.Expr Model.Enforce Model.Engine Model.Cached Gen.CachedRt.

(* (a) `&mut self` methods of impl CoreApi for CachedEnforcer that delegate to self.enforcer.<same method>:
   where the cache is cleared relative to the delegated call *)
Definition gen_cached_methods : list (text * clear_kind) :=
  [((T "add_function"), ClearAfter);
   ((T "get_mut_model"), ClearNever);
   ((T "get_mut_adapter"), ClearNever);
   ((T "set_watcher"), ClearNever);
   ((T "get_mut_watcher"), ClearNever);
   ((T "set_role_manager"), ClearBefore);
   ((T "set_model"), ClearBefore);
   ((T "set_adapter"), ClearBefore);
   ((T "set_effector"), ClearAfter);
   ((T "build_role_links"), ClearBefore);
   ((T "build_incremental_role_links"), ClearNever);
   ((T "load_policy"), ClearBefore);
   ((T "load_filtered_policy"), ClearBefore);
   ((T "save_policy"), ClearNever);
   ((T "clear_policy"), ClearBefore);
   ((T "enable_enforce"), ClearAfter);
   ((T "enable_auto_save"), ClearNever);
   ((T "enable_auto_build_role_links"), ClearNever);
   ((T "enable_auto_notify_watcher"), ClearNever)].

Definition gen_cstep_set_model (c : cstate) (v_m : modeldef) : cstate * outcome bool :=
 (let c := cg_clear c in
 (let (c, r1_) := cg_call c (OSetModel v_m) in
 match r1_ with Panic => (c, Panic) | _ => (c, r1_) end)).

Definition gen_cstep_set_adapter (c : cstate) (v_a : adapter) : cstate * outcome bool :=
 (let c := cg_clear c in
 (let (c, r1_) := cg_call c (OSetAdapter v_a) in
 match r1_ with Panic => (c, Panic) | _ => (c, r1_) end)).

Definition gen_cstep_set_role_manager (c : cstate) (v_rm : nat) : cstate * outcome bool :=
 (let c := cg_clear c in
 (let (c, r1_) := cg_call c (OSetRoleManager v_rm) in
 match r1_ with Panic => (c, Panic) | _ => (c, r1_) end)).

Definition gen_cstep_set_effector (c : cstate) : cstate * outcome bool :=
 (let (c, r1_) := cg_call c OSetEffector in
 match r1_ with Panic => (c, Panic) | _ => (let c := cg_clear c in
 (c, Ok true)) end).

Definition gen_cstep_add_function (c : cstate) (v_fname : text) (v_f : ufun) : cstate * outcome bool :=
 (let (c, r1_) := cg_call c (OAddFunction v_fname v_f) in
 match r1_ with Panic => (c, Panic) | _ => (let c := cg_clear c in
 (c, Ok true)) end).

Definition gen_cstep_build_role_links (c : cstate) : cstate * outcome bool :=
 (let c := cg_clear c in
 (let (c, r1_) := cg_call c OBuildRoleLinks in
 match r1_ with Panic => (c, Panic) | _ => (c, r1_) end)).

Definition gen_cstep_load_policy (c : cstate) : cstate * outcome bool :=
 (let c := cg_clear c in
 (let (c, r1_) := cg_call c OLoad in
 match r1_ with Panic => (c, Panic) | _ => (c, r1_) end)).

Definition gen_cstep_load_filtered_policy (c : cstate) (v_f_p : list text) (v_f_g : list text) : cstate * outcome bool :=
 (let c := cg_clear c in
 (let (c, r1_) := cg_call c (OLoadFiltered v_f_p v_f_g) in
 match r1_ with Panic => (c, Panic) | _ => (c, r1_) end)).

Definition gen_cstep_save_policy (c : cstate) : cstate * outcome bool :=
 (let (c, r1_) := cg_call c OSave in
 match r1_ with Panic => (c, Panic) | _ => (c, r1_) end).

Definition gen_cstep_clear_policy (c : cstate) : cstate * outcome bool :=
 (let c := cg_clear c in
 (let (c, r1_) := cg_call c OClear in
 match r1_ with Panic => (c, Panic) | _ => (c, r1_) end)).

Definition gen_cstep_enable_enforce (c : cstate) (v_enabled : bool) : cstate * outcome bool :=
 (let (c, r1_) := cg_call c (OEnableEnforce v_enabled) in
 match r1_ with Panic => (c, Panic) | _ => (let c := cg_clear c in
 (c, Ok true)) end).

Definition gen_cstep_enable_auto_save (c : cstate) (v_auto_save : bool) : cstate * outcome bool :=
 (let (c, r1_) := cg_call c (OEnableAutoSave v_auto_save) in
 match r1_ with Panic => (c, Panic) | _ => (c, Ok true) end).

Definition gen_cstep_enable_auto_build_role_links (c : cstate) (v_auto_build_role_links : bool) : cstate * outcome bool :=
 (let (c, r1_) := cg_call c (OEnableAutoBuild v_auto_build_role_links) in
 match r1_ with Panic => (c, Panic) | _ => (c, Ok true) end).

Definition gen_cstep_enable_auto_notify_watcher (c : cstate) (v_auto_notify_watcher : bool) : cstate * outcome bool :=
 (let (c, r1_) := cg_call c (OEnableAutoNotify v_auto_notify_watcher) in
 match r1_ with Panic => (c, Panic) | _ => (c, Ok true) end).

(* (b) the cached decision path *)
Section GenCachedEnforce.
  Variable ptab : text -> option expr.

  Definition gen_private_enforce (c : cstate) (v_rvals : list value) (v_cache_key : ckey) : cstate * outcome (bool * bool * unit) :=
 (let r1_ := cg_get c v_cache_key in
 match r1_ with
 | Some x2_ => (c, (Ok (x2_, true, tt)))
 | None => (let r3_ := cg_inner_enforce ptab c v_rvals in
 match r3_ with
 | Ok x4_ => (let '(v_authorized, v_indices) := x4_ in
 (let c := cg_set c v_cache_key v_authorized in
 (c, (Ok (v_authorized, false, v_indices)))))
 | Err e_ => (c, Err e_)
 | Panic => (c, Panic)
 end)
 end).

  Definition gen_private_enforce_with_context (c : cstate) (v_ctx : cgctx) (v_rvals : list value) (v_cache_key : ckey) : cstate * outcome (bool * bool * unit) :=
 (let r1_ := cg_get c v_cache_key in
 match r1_ with
 | Some x2_ => (c, (Ok (x2_, true, tt)))
 | None => (let r3_ := cg_inner_enforce_ctx ptab c v_ctx v_rvals in
 match r3_ with
 | Ok x4_ => (let '(v_authorized, v_indices) := x4_ in
 (let c := cg_set c v_cache_key v_authorized in
 (c, (Ok (v_authorized, false, v_indices)))))
 | Err e_ => (c, Err e_)
 | Panic => (c, Panic)
 end)
 end).

  Definition gen_enforce (c : cstate) (v_rvals : list value) : cstate * outcome bool :=
 (let (c, r1_) := gen_private_enforce c v_rvals (CKPlain v_rvals) in
 match r1_ with
 | Ok x2_ => (let '(v_authorized, v_cached, v_indices) := x2_ in
 (c, (Ok v_authorized)))
 | Err e_ => (c, Err e_)
 | Panic => (c, Panic)
 end).

  Definition gen_enforce_with_context (c : cstate) (v_ctx : cgctx) (v_rvals : list value) : cstate * outcome bool :=
 (let v_cache_key := (cg_hash [HCtx v_ctx; HRv v_rvals]) in
 (let (c, r2_) := gen_private_enforce_with_context c v_ctx v_rvals v_cache_key in
 match r2_ with
 | Ok x3_ => (let '(v_authorized, v_cached, v_indices) := x3_ in
 (c, (Ok v_authorized)))
 | Err e_ => (c, Err e_)
 | Panic => (c, Panic)
 end)).

  Definition gen_enforce_mut (c : cstate) (v_rvals : list value) : cstate * outcome bool :=
 (let (c, r1_) := gen_enforce c v_rvals in
 match r1_ with Panic => (c, Panic) | _ => (c, r1_) end).

  (* one request, named by the key the model files it under *)
  Definition gen_cenforce (c : cstate) (k : ckey) : cstate * outcome bool :=
    match k with
    | CKPlain rv => gen_enforce c rv
    | CKCtx4 rk pk ek mk rv => gen_enforce_with_context c {| x_r := rk; x_p := pk; x_e := ek; x_m := mk |} rv
    end.
End GenCachedEnforce.

(* enforce_with_context: every key it looks up was fed the get_cache_key() of the context it decides with *)
Definition gen_ctx_key_includes_context : bool := true.

(* (c) new_raw: cached_enforcer.on(Event::ClearCache, clear_cache) on the value it returns *)
Definition gen_clear_cache_registered : bool := true.
(* emitter.rs clear_cache runs get_mut_cache().clear(), and get_mut_cache is the cache field *)
Definition gen_clear_cache_clears : bool := true.

(* EnforceContext::get_cache_key (src/enforcer.rs): the string that stands for a context in the key *)
Definition gen_ctx_cache_key (x : cgctx) : text :=
  (T "EnforceContext{") ++ x_r x ++ (T "-") ++ x_p x ++ (T "-") ++ x_e x ++ (T "-") ++ x_m x ++ (T "}").

Definition gen_cached_translated : bool := true.
