(* HAND-WRITTEN glue for the generated file Gen/InternalGen.v (tools/rs2coq.py,
   part 4: the five management entry points of src/internal_api.rs).

   The generated programs are built from the primitives of Model/Engine.v
   (ad_add .. ad_remove_filtered, m_add_policy .. m_remove_filtered, emit,
   incremental_links through the dispatcher below, upd_adapter, upd_model, the
   flags e_auto_save / e_auto_notify / e_auto_build) and from the three
   definitions of this file.  Nothing here is specific to one entry point. *)
From CV Require Import Model.Base Model.Enforce Model.Engine.

(* Control flow of a Rust block that may leave the function early (`return e`,
   the `?` operator, a panic): either it falls through with a value, or the
   function is over with that outcome.  Used by the translator only where two
   paths join again (short-circuit operators whose right operand has an
   effect, an `if` one of whose branches may return). *)
Inductive flow (A : Type) := Next (a : A) | Exit (o : outcome bool).
Arguments Next {A} a.
Arguments Exit {A} o.

(* emit(Event::ClearCache, EventData::ClearCache).  The plain Enforcer has no
   cache (the listener is registered by CachedEnforcer only): nothing happens.
   The cached enforcer's model, Model/Cached.v, clears on the RESULT of the call
   (clears_after).  The generated programs take the hook as a parameter
   (`gen_.._cc clear_cache`) so that its POSITION is part of the generated
   term; `gen_..` instantiates it with this identity. *)
Definition emit_clear_cache (s : estate) : estate := s.

(* Enforcer::build_incremental_role_links(d) -> DefaultModel::build_incremental_role_links
   (default_model.rs:171): only an event of section "g" whose policy type names
   an assertion reaches Assertion::build_incremental_role_links
   (assertion.rs:85), which inserts for AddPolicy / AddPolicies, deletes for
   the three Remove.. events, a single rule standing for the one-element list.
   Every other event is Ok(()) without effect. *)
Definition build_incremental_role_links (s : estate) (d : event) : estate * lerr :=
  match d with
  | EvAdd sec pt r => if teqb sec s_g then incremental_links s pt true [r] else (s, LOk)
  | EvAddMany sec pt rs => if teqb sec s_g then incremental_links s pt true rs else (s, LOk)
  | EvRemove sec pt r => if teqb sec s_g then incremental_links s pt false [r] else (s, LOk)
  | EvRemoveMany sec pt rs => if teqb sec s_g then incremental_links s pt false rs else (s, LOk)
  | EvRemoveFiltered sec pt rs => if teqb sec s_g then incremental_links s pt false rs else (s, LOk)
  | EvSave _ | EvClear => (s, LOk)
  end.
