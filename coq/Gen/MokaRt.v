(* HAND-WRITTEN (TRUSTED) restatement of mini_moka::sync::Cache<K, V> as far as
   src/cache/default_cache.rs uses it (new, get, contains_key, insert,
   invalidate_all); the vocabulary of gen_cache_* in Gen/Model2Gen.v
   (tools/rs2coq_model2.py, part 18).  Definitions only.

   What is restated.  The cache is a bounded map that MAY FORGET ANY ENTRY AT
   ANY TIME (capacity, TinyLFU admission - a new entry may be rejected -,
   housekeeping).  It never invents anything: `get(k)` returns the value of the
   LAST `insert(k, _)` since the last `invalidate_all()`, or None.
     state      the entries currently held (at most one per key is visible: the
                first match) and a SCHEDULE: the eviction decisions still to come,
                one per call (`keep : K -> bool`: the keys that survive).  The
                schedule is a prophecy of the cache's internal policy; every
                statement about gen_cache_* quantifies over ALL states, hence over
                all schedules.  An exhausted schedule forgets nothing more.
     every call first takes the next decision of the schedule and drops the
                entries it does not keep (moka_tick), then
     get        the value held for the key, if any            (state unchanged)
     contains_key  whether a value is held for the key
     insert     any entry for the key is replaced by the new one (which a later
                decision - the very next call's - may drop: admission)
     invalidate_all  nothing is held any more
   `max_capacity` is recorded but gives no guarantee of its own: a cache that
   holds more than `cap` entries is allowed here (it may forget, it need not).
   This over-approximates mini-moka, which is what a "for every state" theorem
   needs. *)
From Coq Require Import List Bool.
Import ListNotations.

Section Moka.
  Variables K V : Type.
  Variable keqb : K -> K -> bool.     (* K: Eq + Hash *)

  Record moka : Type := { mk_cap : nat; mk_entries : list (K * V); mk_sched : list (K -> bool) }.

  (* Cache::new(max_capacity) *)
  Definition rs_moka_new (sched : list (K -> bool)) (cap : nat) : moka :=
    {| mk_cap := cap; mk_entries := []; mk_sched := sched |}.

  Definition moka_tick (m : moka) : moka :=
    match mk_sched m with
    | [] => m
    | keep :: s => {| mk_cap := mk_cap m; mk_entries := filter (fun e => keep (fst e)) (mk_entries m); mk_sched := s |}
    end.

  Fixpoint moka_lookup (l : list (K * V)) (k : K) : option V :=
    match l with
    | [] => None
    | (k', v) :: r => if keqb k k' then Some v else moka_lookup r k
    end.

  Definition rs_moka_get (m : moka) (k : K) : moka * option V :=
    let m' := moka_tick m in (m', moka_lookup (mk_entries m') k).

  Definition rs_moka_contains_key (m : moka) (k : K) : moka * bool :=
    let m' := moka_tick m in
    (m', match moka_lookup (mk_entries m') k with Some _ => true | None => false end).

  Definition rs_moka_insert (m : moka) (k : K) (v : V) : moka :=
    let m' := moka_tick m in
    {| mk_cap := mk_cap m';
       mk_entries := (k, v) :: filter (fun e => negb (keqb (fst e) k)) (mk_entries m');
       mk_sched := mk_sched m' |}.

  Definition rs_moka_invalidate_all (m : moka) : moka :=
    let m' := moka_tick m in
    {| mk_cap := mk_cap m'; mk_entries := []; mk_sched := mk_sched m' |}.
End Moka.

Arguments mk_cap {K V} _.
Arguments mk_entries {K V} _.
Arguments mk_sched {K V} _.
Arguments rs_moka_new {K V} sched cap.
Arguments moka_tick {K V} m.
Arguments moka_lookup {K V} keqb l k.
Arguments rs_moka_get {K V} keqb m k.
Arguments rs_moka_contains_key {K V} keqb m k.
Arguments rs_moka_insert {K V} keqb m k v.
Arguments rs_moka_invalidate_all {K V} m.
