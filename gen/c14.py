"""C14 cases: management histories with a recording watcher: rejected calls,
batch and filtered operations, clear_policy, save_policy and auto-notify
toggles; the watcher log and the stores are dumped after every call."""
import itertools
import random
from hist import *


def generate(tier, seed):
    rnd = random.Random(seed)
    cases = []
    dist = {"exhaustive": 0, "random": 0}
    d = prio_kind()
    sp = spec_of(d)
    al = mgmt_alphabet(False) + ["SV"]
    toggles = ["EN:0", "EN:1"]
    al_ex = al if tier != "quick" else al
    obs = ["?ga:p", "?ga:g", "?wl"]
    lines = [["p", "p"] + r for r in p_rules()[:2]] + [["g", "g"] + g_rules()[0]]
    pr0 = p_rules()
    for pre in ([], ["EN:1"], ["EN:0", "EN:1"], ["EN:1", "EN:1", "EN:0", "EN:1"], ["EN:0"],
                # calls made WHILE notifications are off (they emit unconditionally or not at all), then on again
                ["EN:0", "SV", "EN:1"], ["EN:0", "CL", "EN:1"], ["EN:0", A("p", "p", pr0[3]), "EN:1"], ["EN:0", "SV", "CL", "EN:1", "EN:1"],
                # a grouping rule stored while automatic link building was off: removing it later changes the policy (one
                # notification) although the link update that follows fails
                ["EB:0", A("g", "g", g_rules()[2]), "EB:1"], ["EB:0", A("g", "g", g_rules()[0]), A("g", "g", g_rules()[3]), "EB:1"]):
        for k in (1, 2):
            if k == 2 and pre not in ([], ["EN:1"], ["EN:0", "SV", "EN:1"]) and pre[0] != "EB:0":
                continue
            for h in itertools.product(al_ex, repeat=k):
                steps = list(obs)
                for t in pre:
                    steps += [t] + obs
                for o in h:
                    steps += [o] + obs
                cases.append(case("eng", sp, adapter_M(lines), "w", steps))
                dist["exhaustive"] += 1
                # the same history through a CachedEnforcer (it keeps its own event table and callbacks)
                if k == 1 or len(cases) % 5 == 0:
                    cases.append(case("engc", sp, adapter_M(lines), "w", steps))
                    dist["cached_enforcer"] = dist.get("cached_enforcer", 0) + 1
    # a grouping rule SHORTER than the role definition: it is stored (model and adapter) and then the link update fails, so
    # the call returns an error - the policy changed, and the change is notified like any other (a replica folding the
    # notifications must end up with the primary's rules)
    dist["malformed_grouping_rule"] = 0
    for bad in (A("g", "g", ["bob"]), AM("g", "g", [["carl"], g_rules()[3]]), AM("g", "g", [g_rules()[3], ["carl"]])):
        for pre in ([], ["EN:0", "EN:1"], [A("g", "g", g_rules()[2])]):
            for o2 in (None, R("g", "g", ["bob"]), A("p", "p", pr0[3]), "SV", bad):
                steps = list(obs)
                for t in pre + [bad] + ([o2] if o2 else []):
                    steps += [t] + obs
                for kind in ("eng", "engc"):
                    cases.append(case(kind, sp, adapter_M(lines), "w", steps))
                    dist["malformed_grouping_rule"] += 1
    for _ in range(60 if tier == "quick" else 15000):
        n = rnd.choice([5, 15, 40])
        steps = list(obs)
        for _ in range(n):
            steps += [(rand_rf(rnd, False) if rnd.random() < 0.12 else rnd.choice(al + toggles + toggles))] + obs
        ad = adapter_M(initial_lines(rnd, False, True))
        if rnd.random() < 0.4:
            ad = adapter_X(ad, "p" + "".join(rnd.choice("pppprf") for _ in range(2 * n)))
        cases.append(case(rnd.choice(["eng", "eng", "engc"]), sp, ad, "w", steps))
        dist["random"] += 1
    # filtered removals (and the RBAC helpers built on them) that match NOTHING, on adapters that let the call through
    # (Null adapter; Memory with auto-save off): no change, no notification
    dist["empty_filtered_removals"] = 0
    for ad, pre in (("N", []), (adapter_M(initial_lines(rnd, False, True)), ["ES:0"])):
        for o in [RF("p", "p", 0, ["nobody"]), RF("g", "g", 0, ["nobody"]), RF("g", "g", 1, ["norole"]), "du:nobody", "dra:norole", "drs:nobody:-", "dpsf:nobody"]:
            steps = list(obs)
            for t in pre + [o, o]:
                steps += [t] + obs
            cases.append(case("eng", sp, ad, "w", steps))
            dist["empty_filtered_removals"] += 1
    # two policy types per section: the event must name the policy type, not the section
    sp = multi_spec()
    al = multi_alphabet() + ["SV"]
    for k in (1, 2):
        hs = list(itertools.product(al, repeat=k))
        if k == 2 and tier == "quick":
            hs = rnd.sample(hs, 500)
        for h in hs:
            steps = list(obs)
            for o in h:
                steps += [o] + obs
            cases.append(case("eng", sp, adapter_M(multi_lines()), "w", steps))
            dist["exhaustive"] += 1
    return {
        "cases": cases,
        "exhaustive": False,
        "rule": ("RBAC priority model with a recording watcher: toggle prefixes {[], on, off-on, on-on-off-on, off} x every history of <= 2 calls over the C04 "
                 "alphabet + save_policy; seeded random histories up to length 40 with toggles in between and adapters refusing / failing calls; the watcher "
                 "log and both stores after every call. non-trivial = at least one event was delivered"),
        "distribution": dist,
    }


def nontrivial(c, mo):
    return "EA^" in mo or "ER" in mo or "EC" in mo or "ES^" in mo
