"""C11 cases: the same history driven through an Enforcer and a CachedEnforcer
in lock-step (`twin`): the complete public mutating surface interleaved with
plain and context-qualified requests, each request issued twice (miss, hit)."""
import itertools
import random
from hist import *


def two_ctx_spec(eff="AO"):
    """plain sections decide by RBAC, the '2' sections by plain ACL equality with swapped meaning, so the
    same values decide differently with and without the context"""
    pf = "sub,obj,act" + (",eft" if eff != "AO" else "")
    m = And(Call("g", V("r", "sub"), V("p", "sub")), Call("keyMatch", V("r", "obj"), V("p", "obj")), Eq(V("r", "act"), V("p", "act")))
    # both matchers go through a built-in (keyMatch) so that overriding it with add_function is observable
    m2 = And(Eq(V("r2", "sub"), V("p2", "sub")), Call("keyMatch", V("r2", "obj"), V("p2", "obj")))
    return "r=sub,obj,act;r2=sub,obj,act;p=%s;p2=%s;g=2;e=%s;e2=%s;m={%s};m2={%s}" % (pf, pf, eff, eff, m, m2)


def other_spec():
    return "r=sub,obj,act;p=sub,obj,act;g=2;e=AO;m={%s}" % Or(eq3(), Eq(V("r", "sub"), Lit("root")))


def generate(tier, seed):
    rnd = random.Random(seed)
    cases = []
    dist = {"exhaustive": 0, "random": 0}
    sp = two_ctx_spec()
    pr = [["alice", "data1", "read"], ["admin", "data2", "read"], ["bob", "data2", "read"]]
    gr = [["alice", "admin"], ["bob", "admin"]]
    muts = [A("p", "p", pr[0]), R("p", "p", pr[0]), A("p", "p", pr[1]), R("p", "p", pr[1]), A("p", "p2", pr[2]), R("p", "p2", pr[2]),
            A("g", "g", gr[0]), R("g", "g", gr[0]), AM("p", "p", pr[:2]), RM("p", "p", pr[:2]), RF("p", "p", 0, ["alice"]),
            RF("g", "g", 0, ["alice"]), RF("g", "g", 1, ["admin"]), AM("g", "g", gr), RM("g", "g", gr), "ar:alice:admin:-", "dr:alice:admin:-", "du:alice", "dra:admin", "dpsf:alice",
            "CL", "LD", "LF:%s:%s" % (enc_rule(["alice"]), enc_rule([])), "SV",
            "SM:" + other_spec(), "SM:" + sp, "SA:" + adapter_M([["p", "p"] + pr[2], ["g", "g"] + gr[1]]), "SA:N",
            "SR:10", "BR", "EE:0", "EE:1", "SE", "AF:keyMatch:neq", "AF:g:eq", "ES:0", "ES:1", "EB:0", "EB:1", "EN:0", "EN:1"]
    reqs = [["alice", "data1", "read"], ["bob", "data1", "read"], ["bob", "data2", "read"], ["alice", "data2", "read"], ["root", "data1", "read"],
            ["alice", "data1"]]

    def qblock():
        out = []
        for r in reqs:
            out += [Q_e(r), Q_e(r)]
        out += [Q_em(reqs[0]), Q_em(reqs[1]), Q_e(reqs[1]), Q_et(reqs[0]), Q_et(reqs[2]), Q_et(reqs[2]), Q_et(reqs[3]), Q_e(reqs[3])]
        for r in reqs[:4]:
            out += [Q_ec("2", r), Q_ec("2", r)]
        return out

    # alice reaches data2 only through the role link, bob holds data2 under p2 only through keyMatch: every mutator
    # (also add_function overriding g / keyMatch, set_role_manager, build_role_links with auto-build off) can flip a cached decision
    lines = [["p", "p"] + pr[0], ["p", "p"] + pr[1], ["p", "p2"] + pr[2], ["g", "g"] + gr[0]]
    L = 2
    muts_ex = muts if tier != "quick" else muts
    for k in range(1, L + 1):
        for h in itertools.product(muts_ex, repeat=k):
            steps = qblock()
            for o in h:
                steps += [o] + qblock()
            cases.append(case("twin", sp, adapter_M(lines), "-", steps))
            dist["exhaustive"] += 1
    # from a state whose role graph is STALE (auto-build off, then a grouping rule removed / added): build_role_links,
    # set_role_manager, reloads and re-enabling auto-build now change decisions
    for pre in (["EB:0", R("g", "g", gr[0])], ["EB:0", A("g", "g", gr[1]), A("p", "p2", ["bob", "data9", "read"])],
                # a grouping rule stored but never linked, auto-build back on: an incremental removal touching it fails half-way
                ["EB:0", A("g", "g", gr[1]), "EB:1"], ["EB:0", A("g", "g", ["carol", "admin"]), A("g", "g", ["alice", "ops"]), "EB:1"]):
        for m1 in muts:
            steps = list(pre) + qblock() + [m1] + qblock()
            cases.append(case("twin", sp, adapter_M(lines), "-", steps))
            dist["exhaustive"] += 1
    # every mutator with the adapter failing / refusing exactly at that call (warm cache before, queries after)
    for m1 in muts:
        for fault in "rflh":
            for pre in ([], [muts[2]]):
                steps = qblock()
                for o in pre:
                    steps += [o] + qblock()
                steps += [m1] + qblock()
                script = "p" + "p" * len(pre) + fault
                cases.append(case("twin", sp, adapter_X(adapter_M(lines), script), "-", steps))
                dist["exhaustive"] += 1
    for _ in range(60 if tier == "quick" else 20000):
        n = rnd.choice([3, 6, 15, 40, 80]) if tier != "quick" else rnd.choice([3, 6, 15, 40])
        steps = []
        for _ in range(n):
            if rnd.random() < 0.5:
                steps.append(rnd.choice(muts))
            r = rnd.choice(reqs)
            c = rnd.random()
            steps.append(Q_e(r) if c < 0.45 else Q_em(r) if c < 0.55 else Q_et(r) if c < 0.7 else Q_ec("2", r))
        ad = rnd.choice([adapter_M(lines), adapter_X(adapter_M(lines), "p" + "".join(rnd.choice("ppprf") for _ in range(12)))])
        cases.append(case("twin", sp, ad, "-", steps))
        dist["random"] += 1
    # hand-assembled contexts: the four section names of an EnforceContext are independent public fields. A model whose
    # e / e2 sections combine differently (allow-override / deny-override) over the same r, p, m sections: contexts that
    # differ in ONE section name only must not share a cache slot.
    m = And(Call("g", V("r", "sub"), V("p", "sub")), Eq(V("r", "obj"), V("p", "obj")), Eq(V("r", "act"), V("p", "act")))
    m2 = And(Eq(V("r2", "sub"), V("p2", "sub")), Eq(V("r2", "act"), V("p2", "act")))
    sp4 = ("r=sub,obj,act;r2=sub,obj,act;p=sub,obj,act,eft;p2=sub,obj,act,eft;g=2;e=AO;e2=DO;m={%s};m2={%s}" % (m, m2))
    lines4 = [["p", "p", "alice", "data1", "read", "allow"], ["p", "p", "bob", "data1", "read", "deny"],
              ["p", "p2", "bob", "data2", "read", "allow"], ["p", "p2", "alice", "data9", "read", "deny"], ["g", "g", "carol", "alice"]]
    reqs4 = [["alice", "data1", "read"], ["bob", "data1", "read"], ["carol", "data1", "read"], ["dave", "data1", "read"]]
    secs = [(rk, pk, ek, mk) for rk in ("r", "r2") for pk in ("p", "p2") for ek in ("e", "e2") for mk in ("m", "m2")]
    valid = [("r", "p", "e", "m"), ("r", "p", "e2", "m"), ("r2", "p2", "e", "m2"), ("r2", "p2", "e2", "m2")]
    muts4 = [A("p", "p", ["dave", "data1", "read", "allow"]), R("p", "p", ["alice", "data1", "read", "allow"]),
             A("p", "p2", ["dave", "data7", "read", "deny"]), A("g", "g", ["dave", "alice"]), R("g", "g", ["carol", "alice"]), "CL", "EE:0", "SV"]
    dist["ctx4"] = 0

    def block4(order):
        out = []
        for c in order:
            for r in reqs4:
                out.append(Q_c4(c[0], c[1], c[2], c[3], r))
        return out

    orders = [valid, valid[::-1], [valid[1], valid[0], valid[3], valid[2]], secs]
    for od in orders:
        for mu in [None] + muts4:
            steps = block4(od) + block4(od)
            if mu:
                steps += [mu] + block4(od) + block4(od[::-1])
            cases.append(case("twin", sp4, adapter_M(lines4), "-", steps))
            dist["ctx4"] += 1
    for _ in range(40 if tier == "quick" else 8000):
        steps = []
        for _ in range(rnd.choice([6, 15, 40])):
            if rnd.random() < 0.25:
                steps.append(rnd.choice(muts4))
            c = rnd.choice(valid) if rnd.random() < 0.8 else rnd.choice(secs)
            r = rnd.choice(reqs4)
            steps.append(Q_c4(c[0], c[1], c[2], c[3], r) if rnd.random() < 0.8 else Q_e(r))
        cases.append(case("twin", sp4, adapter_M(lines4), "-", steps))
        dist["ctx4"] += 1
    # request values of DIFFERENT TYPE that print alike (the integer 42 and the string "42", true and "true"): the enforcer
    # decides them differently (a stored value is a string), so they must not share a cached decision - asked in both orders,
    # twice each, through the tuple form and the list form
    dist["typed_lookalikes"] = 0
    sp_t = "r=sub,obj,act;p=sub,obj,act;e=AO;m={%s}" % eq3()
    lines_t = [["p", "p", "alice", "42", "read"], ["p", "p", "alice", "true", "read"], ["p", "p", "7", "data1", "read"]]
    pairs_t = [(["alice", 42, "read"], ["alice", "42", "read"]), (["alice", True, "read"], ["alice", "true", "read"]),
               ([7, "data1", "read"], ["7", "data1", "read"]), (["alice", -1, "read"], ["alice", "-1", "read"])]
    for a, b2 in pairs_t:
        for first, second in ((a, b2), (b2, a)):
            for mid in ([], [A("p", "p", ["alice", "-1", "read"])]):
                steps = [Q_et(first), Q_et(first), Q_et(second), Q_e([str(x) if not isinstance(x, bool) else "true" for x in second]), Q_et(second)] + mid + \
                        [Q_et(first), Q_et(second), Q_et(first)]
                cases.append(case("twin", sp_t, adapter_M(lines_t), "-", steps))
                dist["typed_lookalikes"] += 1
    return {
        "cases": cases,
        "exhaustive": False,
        "rule": ("a model with plain and '2'-suffixed sections that decide differently on equal values; every history of <= 2 calls over the complete public "
                 "mutating surface (%d calls: management, RBAC helpers, clear_policy, load_policy, load_filtered_policy, save_policy, set_model (two models), "
                 "set_adapter, set_role_manager, build_role_links, enable_enforce, set_effector, add_function (overriding a built-in used by both matchers, and the role function g), "
                 "auto-save/build/notify toggles), a block of plain and context-qualified requests (each issued twice) before the history and after every call; "
                 "seeded random interleavings up to length 80, also with failing adapters; a model with allow-override e and deny-override e2 over shared sections "
                 "queried through hand-assembled EnforceContext values (all 16 combinations of section names, contexts differing in one name only issued "
                 "back to back); Enforcer and CachedEnforcer in lock-step. "
                 "non-trivial = both a grant and a denial occur" % len(muts)),
        "distribution": dist,
    }


def nontrivial(c, mo):
    return "|1|" in mo and "|0|" in mo
