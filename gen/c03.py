"""C03 cases: histories of add_link / delete_link / clear on DefaultRoleManager
followed by has_link / get_roles / get_users queries."""
import itertools
import random
from common import enc, enc_opt

NAMES = ["a", "b", "c"]
DOMS = [None, "d1", "", "DEFAULT"]   # the empty name and the literal name of the default domain are legal domain names


def op_str(o):
    if o[0] == "C":
        return "C"
    return "%s,%s,%s,%s" % (o[0], enc(o[1]), enc(o[2]), enc_opt(o[3]))


def q_str(q):
    if q[0] == "H":
        return "H,%s,%s,%s" % (enc(q[1]), enc(q[2]), enc_opt(q[3]))
    return "%s,%s,%s" % (q[0], enc(q[1]), enc_opt(q[2]))


def all_queries(names, doms):
    qs = []
    for d in doms:
        for a in names:
            for b in names:
                qs.append(("H", a, b, d))
            qs.append(("R", a, d))
            qs.append(("U", a, d))
    return qs


def case(maxd, ops, qs):
    return "rm %d %s %s" % (maxd, "|".join(op_str(o) for o in ops) if ops else "-", "|".join(q_str(q) for q in qs))


def generate(tier, seed):
    rnd = random.Random(seed)
    cases = []
    alphabet = [("C",)]
    for d in DOMS:
        for a in NAMES:
            for b in NAMES:
                alphabet.append(("A", a, b, d))
                alphabet.append(("D", a, b, d))
    qs = all_queries(NAMES + ["zz"], DOMS)
    L = 2 if tier == "quick" else 3
    n_ex = 0
    for k in range(0, L + 1):
        for h in itertools.product(alphabet, repeat=k):
            # the hierarchy limit is a constructor argument; small limits make the
            # depth counter observable on small graphs
            maxd = 10 if k < L else [10, 1, 2, 3][n_ex % 4]
            cases.append(case(maxd, list(h), qs))
            n_ex += 1
    # every history of length 3 over one domain and non-reflexive pairs (re-adds of live links,
    # double deletes, add-add-delete ...): 13^3 histories
    al1 = [("C",)] + [(k, a, b, None) for k in "AD" for a in NAMES for b in NAMES if a != b]
    q1 = all_queries(NAMES, [None])
    for h in itertools.product(al1, repeat=3):
        cases.append(case(10, list(h), q1))
        n_ex += 1
    # single-domain deeper exhaustive part: all link sets over 4 names added in a random order
    # (these reach the depth-counter logic: limits 0..4)
    names4 = ["a", "b", "c", "d"]
    pairs = [(x, y) for x in names4 for y in names4 if x != y]
    n_sets = 300 if tier == "quick" else 3000
    q4 = all_queries(names4, [None])
    for _ in range(n_sets):
        k = rnd.randint(1, 8)
        es = rnd.sample(pairs, k)
        ops = [("A", x, y, None) for (x, y) in es]
        # some deletions / re-adds
        for _ in range(rnd.randint(0, 3)):
            x, y = rnd.choice(pairs)
            ops.append((rnd.choice("AD"), x, y, None))
        cases.append(case(rnd.randint(0, 4), ops, q4))
    # questions asked BETWEEN the mutations: an answer the manager gave must not survive a clear / delete / add that changes it
    for _ in range(120 if tier == "quick" else 3000):
        ops = []
        for _ in range(rnd.randint(3, 10)):
            c = rnd.random()
            x, y = rnd.choice(NAMES), rnd.choice(NAMES)
            d = rnd.choice([None, None, "d1"])
            if c < 0.4:
                ops.append(("A", x, y, d))
            elif c < 0.55:
                ops.append(("D", x, y, d))
            elif c < 0.65:
                ops.append(("C",))
            else:
                ops.append(("H", x, y, d))
        # the same questions again right after a clear
        ops += [("H", "a", "b", None), ("C",), ("H", "a", "b", None), ("H", "a", "c", None)]
        cases.append(case(rnd.randint(2, 4), ops, all_queries(NAMES, [None, "d1"])))
    # a chain closed link by link between names that are all KNOWN already, the end-to-end question asked after every addition:
    # the answer must change the moment the missing link arrives (an answer remembered from before must not survive it)
    for perm in itertools.permutations([("a", "b"), ("b", "c"), ("c", "d")]):
        for d in (None, "d1"):
            ops = [("A", "a", "x", d), ("A", "b", "y", d), ("A", "c", "z", d), ("A", "d", "w", d), ("H", "a", "d", d)]
            for (x, y) in perm:
                ops += [("A", x, y, d), ("H", "a", "d", d), ("H", "b", "d", d)]
            ops += [("D", "b", "c", d), ("H", "a", "d", d), ("A", "b", "c", d), ("H", "a", "d", d)]
            cases.append(case(5, ops, all_queries(["a", "d"], [d])))
    # names that are prefixes / suffixes of one another, and domain names that continue them: (a, ba), (ab, a), (aba, "") all
    # CONCATENATE to the same text - every (name1, name2, domain) question is its own question, in whatever order they are asked
    namesx = ["a", "ab", "b", "ba", "aba"]
    pairsx = [(x, y) for x in namesx for y in namesx if x != y]
    for _ in range(60 if tier == "quick" else 1500):
        es = rnd.sample(pairsx, rnd.randint(1, 4))
        ops = [("A", x, y, rnd.choice([None, None, "a", "b"])) for (x, y) in es]
        qx = [("H", x, y, d) for x in namesx for y in namesx for d in (None, "a", "b", "")]
        rnd.shuffle(qx)
        cases.append(case(rnd.randint(2, 4), ops, qx[:60]))
    # random long histories over 12 names with chains around the limit 10
    n_rand = 150 if tier == "quick" else 3000
    names12 = ["n%d" % i for i in range(12)]
    dist = {"chain_len": {}, "hist_len": {}}
    for i in range(n_rand):
        ops = []
        d = rnd.choice([None, None, "d1"])
        clen = rnd.randint(7, 11)
        order = list(range(clen))
        if rnd.random() < 0.5:
            rnd.shuffle(order)
        for j in order:
            ops.append(("A", names12[j], names12[j + 1], d))
        dist["chain_len"][clen] = dist["chain_len"].get(clen, 0) + 1
        extra = rnd.randint(0, 30)
        for _ in range(extra):
            r = rnd.random()
            x, y = rnd.choice(names12), rnd.choice(names12)
            dd = rnd.choice([d, d, None, "d1", "d2", ""])
            if r < 0.55:
                ops.append(("A", x, y, dd))
            elif r < 0.97:
                ops.append(("D", x, y, dd))
            else:
                ops.append(("C",))
        hl = len(ops) // 10 * 10
        dist["hist_len"][hl] = dist["hist_len"].get(hl, 0) + 1
        qs12 = [("H", names12[0], n, d) for n in names12] + [("H", rnd.choice(names12), rnd.choice(names12), dd)
                                                            for dd in (None, "d1", "d2", "") for _ in range(5)]
        qs12 += [("R", n, d) for n in names12[:6]] + [("U", n, d) for n in names12[:6]]
        cases.append(case(rnd.choice([10, 10, 10, 9, 11, 5]), ops, qs12))
    mdist = gen_rmm(tier, rnd, cases)
    return {
        "cases": cases,
        "exhaustive": False,
        "rule": ("[matching functions] role-manager histories with RoleManager::matching_fn installed (key_match / key_match2 / key_match3 / a symmetric "
                 "harness-defined function; role and domain patterns): exhaustive histories of <= 2 link operations after the installation over pattern-bearing "
                 "name sets, seeded random add-only 'pattern histories' (checked against the declarative pattern-reachability spec) and random histories with "
                 "deletes, clears and re-installations (model = implementation only). [plain] ""every history of add_link/delete_link/clear of length <= %d over 3 names (self-pairs included) x {None, d1, the empty domain name, the literal name DEFAULT} "
                 "(%d histories; the longest ones with hierarchy limits 10,1,2,3 in rotation), each followed by all has_link/get_roles/get_users "
                 "queries over those names plus an unknown name; %d random link sets over 4 names with limits 0..4; %d seeded random histories "
                 "over 12 names containing a chain of 7..11 links (limit 5/9/10/11). non-trivial = history with at least one link present at the end"
                 % (L, n_ex, n_sets, n_rand)),
        "distribution": {"matching": mdist, "exhaustive_histories": n_ex, "linkset_cases": n_sets, "random_histories": n_rand,
                         "random_chain_lengths": dist["chain_len"], "random_history_lengths_by_10": dist["hist_len"]},
    }


MNAMES = {
    "km": ["alice", "bob", "*", "b*", "book_group", "pen_group"],
    "km2": ["/b/1", "/b/:id", "/p/1", "/p/:x", "alice", "grp"],
    "km3": ["/b/1", "/b/{id}", "/p/1", "/p/{x}", "alice", "grp"],
    "fe": ["a1", "a2", "b1", "b2", "c"],
}
MDOMS = [None, "d1", "d2", "*", "d*", ""]


def mop_str(o):
    if o[0] == "F":
        return "F,%s,%s" % (o[1] or "-", o[2] or "-")
    return op_str(o)


def mcase(maxd, ops, qs):
    return "rmm %d %s %s" % (maxd, "|".join(mop_str(o) for o in ops) if ops else "-", "|".join(q_str(q) for q in qs))


def gen_rmm(tier, rnd, cases):
    dist = {"exhaustive": 0, "pattern_histories": 0, "general": 0, "by_fn": {}, "with_domain_fn": 0, "with_deletes": 0}
    # exhaustive: install, then every history of <= 2 link operations over 3 pattern-bearing names
    for fid, names in MNAMES.items():
        n3 = names[:3] if fid != "km2" and fid != "km3" else names[:2] + [names[4]]
        al = [("C",)] + [(k, a, b, None) for k in "AD" for a in n3 for b in n3 if a != b]
        qs = all_queries(n3 + ["zz"], [None])
        for k in (1, 2):
            for h in itertools.product(al, repeat=k):
                cases.append(mcase(10, [("F", fid, None)] + list(h), qs))
                dist["exhaustive"] += 1
    # pattern histories: install first, then adds (and a rare clear); checked against the declarative spec
    n_pat = 300 if tier == "quick" else 6000
    for i in range(n_pat):
        fid = rnd.choice(list(MNAMES))
        names = MNAMES[fid]
        dist["by_fn"][fid] = dist["by_fn"].get(fid, 0) + 1
        d = rnd.choice([None, None, "d1"])
        ops = [("F", fid, None)]
        for _ in range(rnd.randint(1, 7)):
            if rnd.random() < 0.04:
                ops.append(("C",))
            else:
                ops.append(("A", rnd.choice(names), rnd.choice(names), d))
        qs = all_queries(names + ["zz", "/b/9"], [d])
        cases.append(mcase(rnd.choice([10, 10, 1, 2, 3]), ops, qs))
        dist["pattern_histories"] += 1
    # general histories: installation anywhere / repeated, role and domain functions, deletes, clears
    n_gen = 300 if tier == "quick" else 6000
    for i in range(n_gen):
        fid = rnd.choice(list(MNAMES))
        names = MNAMES[fid]
        dfn = rnd.choice([None, None, "km"])
        rfn = rnd.choice([fid, fid, fid, None])
        doms = MDOMS if dfn else [None, "d1"]
        ops = []
        if rnd.random() < 0.8:
            ops.append(("F", rfn, dfn))
        nd = 0
        for _ in range(rnd.randint(1, 10)):
            r = rnd.random()
            if r < 0.6:
                ops.append(("A", rnd.choice(names), rnd.choice(names), rnd.choice(doms)))
            elif r < 0.88:
                ops.append(("D", rnd.choice(names), rnd.choice(names), rnd.choice(doms)))
                nd += 1
            elif r < 0.93:
                ops.append(("C",))
            else:
                ops.append(("F", rnd.choice([fid, None]), rnd.choice([None, "km"])))
        if dfn:
            dist["with_domain_fn"] += 1
        if nd:
            dist["with_deletes"] += 1
        qd = [rnd.choice(doms), rnd.choice(doms + ["d9"])]
        qs = all_queries(names[:4] + ["zz"], qd)
        cases.append(mcase(rnd.choice([10, 10, 1, 2, 3]), ops, qs))
        dist["general"] += 1
    # a domain function installed, one name holding links BOTH under a pattern domain and under a concrete domain the pattern
    # covers: a question about the concrete domain is answered from every graph the function selects, not only from the
    # concrete domain's own graph once the name is known there
    dist["pattern_and_concrete_domain"] = 0
    for pd in ("*", "d*"):
        for conc in ("d1", "d2"):
            for rfn in (None, "km"):
                base = [("A", "alice", "book_group", pd), ("A", "alice", "pen_group", conc), ("A", "bob", "alice", conc), ("A", "book_group", "grp", pd)]
                for perm in itertools.permutations(base, 3):
                    for tail in ([], [("D", "alice", "pen_group", conc)], [("D", "alice", "book_group", pd)]):
                        ops = [("F", rfn, "km")] + list(perm) + tail
                        cases.append(mcase(10, ops, all_queries(["alice", "bob", "book_group", "pen_group", "grp"], [conc, pd])))
                        dist["pattern_and_concrete_domain"] += 1
    return dist


def nontrivial(case_line, model_out):
    # some role/user listing is non-empty, i.e. a link is present at the end
    if "q=" not in model_out:
        return False
    return any(t not in ("0", "1", "-") for t in model_out.split("q=")[1].split("|"))
