"""Shared history alphabets for the engine properties (C04, C05, C09, C10, C14)."""
import itertools
import random
from common import enc, enc_rule, enc_rules, enc_opt
from engine import *

SUBS = ["alice", "bob"]
OBJS = ["data1", "data2"]
ROLES = ["admin", "alice"]   # a user name doubles as a role name on purpose


def prio_kind():
    """priority model with an effect column and one role definition: rule order is observable"""
    return kinds(("PR",))["rbac_PR"]


def prio_dom_kind():
    return kinds(("PR",))["rbac_dom_PR"]


def res_kind():
    return kinds(("AO",))["rbac_res"]


def p_rules(dom=False):
    out = []
    for s in SUBS + ["admin"]:
        for o in OBJS[:1] + (OBJS[1:] if not dom else []):
            for e in ("allow", "deny"):
                out.append([s, "d1", o, "read", e] if dom else [s, o, "read", e])
    return out


def g_rules(dom=False):
    out = []
    for a in SUBS + ["admin"]:
        for b in ROLES:
            out.append([a, b, "d1"] if dom else [a, b])
    return out


def batch_corner_ops(dom=False):
    """batches that name a rule twice, or a stored rule before a missing one: all-or-nothing calls must leave the ORDER of the
    store alone when they refuse, keep an in-batch duplicate at its FIRST position, and a removal batch naming a stored grouping
    rule twice removes it once and still updates every other link"""
    pr, gr = p_rules(dom), g_rules(dom)
    return [AM("p", "p", [pr[0], pr[1], pr[0]]),      # duplicate with another rule between
            AM("p", "p", [pr[3], pr[2], pr[3], pr[4]]),
            RM("p", "p", [pr[0], pr[5]]),             # (typically) stored first, missing later
            RM("p", "p", [pr[1], pr[4], pr[0]]),
            RM("p", "p", [pr[1], pr[1]]),             # the same rule twice
            RM("g", "g", [gr[0], gr[0], gr[1]]),
            RM("g", "g", [gr[1], gr[3]]),
            AM("g", "g", [gr[1], gr[0], gr[1]])]


def mgmt_alphabet(dom=False, with_rbac=True, with_unknown=True):
    pr, gr = p_rules(dom), g_rules(dom)
    al = []
    for r in pr[:6]:
        al.append(A("p", "p", r))
        al.append(R("p", "p", r))
    for r in gr[:4]:
        al.append(A("g", "g", r))
        al.append(R("g", "g", r))
    # values with leading / trailing blanks are ordinary values for the store (only the text adapters trim)
    padded = [pr[1][0] + " "] + pr[1][1:-1] + [" " + pr[1][-1]]
    al.append(A("p", "p", padded))
    al.append(R("p", "p", padded))
    al.append(AM("p", "p", [pr[0], pr[1]]))
    al.append(AM("p", "p", [pr[2], pr[2]]))          # internal duplicate
    al.append(AM("p", "p", []))
    al.append(AM("p", "p", [pr[0], pr[3]]))
    al.append(RM("p", "p", [pr[0], pr[1]]))
    al.append(RM("p", "p", []))
    al += batch_corner_ops(dom)
    al.append(AM("g", "g", [gr[0], gr[1]]))
    al.append(AM("g", "g", [gr[0], gr[2]]))
    al.append(RM("g", "g", [gr[0], gr[1]]))
    al.append(RF("p", "p", 0, ["alice"]))
    al.append(RF("p", "p", 1 if not dom else 2, ["data1"]))
    al.append(RF("p", "p", 0, ["", "d1" if dom else "data1"]))   # interior wildcard at the front
    al.append(RF("p", "p", 0, ["bob", "", "read" if not dom else ""]))
    al.append(RF("p", "p", 0, []))
    al.append(RF("g", "g", 0, ["alice"]))
    al.append(RF("g", "g", 1, ["admin"]))
    # wildcard first, then a value that also occurs in an EARLIER column of other rules
    # (a filter compared against shifted columns would pick those instead)
    al.append(RF("g", "g", 0, ["", "alice"] + (["d1"] if dom else [])))
    al.append(RF("g", "g", 0, ["", "admin"]))
    al.append(RF("p", "p", 1, ["", "read"] if not dom else ["", "", "read"]))
    al.append("CL")
    if with_unknown:
        al.append(A("p", "p9", pr[0]))
        al.append(AM("p", "p9", [pr[0]]))
        al.append(RM("p", "p9", [pr[0]]))
        al.append(R("g", "g9", gr[0]))
    if with_rbac:
        d = "d1" if dom else "-"
        al += ["ar:alice:admin:%s" % d, "dr:alice:admin:%s" % d, "drs:alice:%s" % d, "du:alice", "dra:admin",
               "dpsf:bob", "ars:bob:%s:%s" % (enc_rule(["admin", "alice"]), d)]
        if not dom:
            al += ["ap:bob:%s" % enc_rule(["data2", "read", "allow"]), "dpf:bob:%s" % enc_rule(["data2", "read", "allow"]),
                   "dp:%s" % enc_rule(["data1", "read"]), "aps:bob:%s" % enc_rules([["data1", "read", "deny"], ["data2", "read", "deny"]])]
    return al


def observe_steps(dom=False):
    """what is dumped after every call: stores, a few views, order-sensitive decisions"""
    d = ["d1"] if dom else []
    reqs = [[s] + d + [o, "read"] for s in SUBS for o in OBJS[:1]]
    return ["?ga:p", "?ga:g"] + [Q_e(r) for r in reqs]


def view_steps(dom=False):
    # full-width filters with wildcards (several rules match), filters starting further right, on p and on g
    full = ["alice", "d1", "", "read", ""] if dom else ["alice", "", "read", ""]
    extra = ["?gf:p:p:0:%s" % enc_rule(full), "?gf:p:p:0:%s" % enc_rule([""] * len(full)), "?gf:p:p:%d:%s" % (len(full) - 2, enc_rule(["read", ""])),
             "?gf:g:g:0:%s" % enc_rule(["", "admin"] + (["d1"] if dom else [])), "?gf:g:g:1:%s" % enc_rule(["admin"]), "?gf:g:g:0:%s" % enc_rule(["alice", ""])]
    return extra + ["?gp:p:p", "?hp:p:p:%s" % enc_rule(p_rules(dom)[0]), "?gf:p:p:0:%s" % enc_rule(["alice"]),
            "?gf:p:p:0:%s" % enc_rule(["", "d1" if dom else "data1"]), "?vl:p:p:0", "?vl:p:p:1", "?vl:g:g:1",
            "?gp:g:g", "?hp:g:g:%s" % enc_rule(g_rules(dom)[0]), "?gp:p:p9"]


def role_query_steps(dom=False):
    d = "d1" if dom else "-"
    out = []
    for u in SUBS + ["admin"]:
        out += ["?rf:%s:%s" % (u, d), "?uf:%s:%s" % (u, d), "?ir:%s:%s" % (u, d), "?hl:%s:admin:%s" % (u, d)]
    out += ["?ip:alice:%s" % d, "?hr:alice:admin:%s" % d]
    return out


def initial_lines(rnd, dom=False, mem=True, maxp=3, maxg=2):
    pr, gr = p_rules(dom), g_rules(dom)
    ls = []
    for r in rnd.sample(pr, rnd.randint(0, maxp)):
        ls.append((["p", "p"] if mem else ["p"]) + r)
    for r in rnd.sample(gr, rnd.randint(0, maxg)):
        ls.append((["g", "g"] if mem else ["g"]) + r)
    return ls


# ---- a model with two policy types per section whose rules share names across the sibling types ----
def multi_spec():
    m = And(Call("g", V("r", "sub"), V("p", "sub")), Call("g2", V("r", "obj"), V("p", "obj")), Eq(V("r", "act"), V("p", "act")))
    return "r=sub,obj,act;p=sub,obj,act;p2=sub,obj,act;g=2;g2=2;e=AO;m={%s}" % m


MP = [["alice", "data1", "read"], ["ops", "data1", "read"], ["bob", "data2", "read"]]
MG = [["alice", "ops"], ["bob", "ops"], ["ops", "admin"]]
MG2 = [["data1", "ops"], ["data2", "ops"], ["ops", "res"]]


def multi_alphabet():
    al = []
    for pt in ("p", "p2"):
        for r in MP:
            al += [A("p", pt, r), R("p", pt, r)]
        al += [AM("p", pt, MP[:2]), RM("p", pt, MP[:2]), RM("p", pt, MP[1:]), RF("p", pt, 0, ["ops"]), RF("p", pt, 1, ["data1"]),
               RF("p", pt, 0, ["", "data1"])]
    for gk, rules in (("g", MG), ("g2", MG2)):
        for r in rules:
            al += [A("g", gk, r), R("g", gk, r)]
        al += [AM("g", gk, rules[:2]), RM("g", gk, rules[:2]), RF("g", gk, 1, ["ops"]), RF("g", gk, 0, ["ops"]),
               RF("g", gk, 0, ["", "ops"])]
    al += ["dra:ops", "du:ops", "du:alice", "dp:%s" % enc_rule(["data1", "read"]), "dpsf:ops", "CL"]
    return al


def multi_lines(mem=True):
    ls = []
    for pt, rules in (("p", MP[:2]), ("p2", MP[1:])):
        for r in rules:
            ls.append((["p", pt] if mem else [pt]) + r)
    for gk, rules in (("g", MG[:2]), ("g2", MG2[:2])):
        for r in rules:
            ls.append((["g", gk] if mem else [gk]) + r)
    return ls


def multi_observe():
    return ["?ga:p", "?ga:g", Q_e(["alice", "data1", "read"]), Q_e(["bob", "data1", "read"]), Q_e(["alice", "data2", "read"])]


def rand_rf(rnd, dom=False):
    """a random filtered removal: any start index, wildcards anywhere, values drawn from the WHOLE
    universe (so a value may sit in another column than the one the filter names)"""
    pool = SUBS + OBJS + ROLES + ["read", "allow", "deny", "d1", "admin"]
    if rnd.random() < 0.5:
        sec, pt, width = "p", "p", (5 if dom else 4)
    else:
        sec, pt, width = "g", "g", (3 if dom else 2)
    idx = rnd.randint(0, width - 1)
    n = rnd.randint(1, width - idx)
    vals = [("" if rnd.random() < 0.4 else rnd.choice(pool)) for _ in range(n)]
    return RF(sec, pt, idx, vals)


def pick_op(rnd, al, dom=False):
    """a step of a random history: mostly from the fixed alphabet, sometimes a random filtered removal"""
    if rnd.random() < 0.15:
        return rand_rf(rnd, dom)
    return rnd.choice(al)
