"""Building blocks for engine cases (`eng` / `engc` / `twin` lines): expression
s-expressions, the family of documented model kinds, step encoders."""
from common import enc, enc_rule, enc_rules, enc_opt


# ---------------------------------------------------------------- expressions
def Lit(v):
    if isinstance(v, bool):
        return "(lit,b.%d)" % (1 if v else 0)
    if isinstance(v, int):
        return "(lit,i.%d)" % v
    return "(lit,s.%s)" % enc(v)


def V(pre, fld):
    return "(var,%s,%s)" % (enc(pre), enc(fld))


def Prop(e, f):
    return "(prop,%s,%s)" % (e, enc(f))


def Eq(a, b):
    return "(eq,%s,%s)" % (a, b)


def Neq(a, b):
    return "(neq,%s,%s)" % (a, b)


def Cmp(op, a, b):
    return "(%s,%s,%s)" % (op, a, b)


def And(*xs):
    r = xs[0]
    for x in xs[1:]:
        r = "(and,%s,%s)" % (r, x)
    return r


def Or(*xs):
    r = xs[0]
    for x in xs[1:]:
        r = "(or,%s,%s)" % (r, x)
    return r


def Not(a):
    return "(not,%s)" % a


def In(a, xs):
    return "(in,%s)" % ",".join([a] + list(xs))


def Call(f, *args):
    return "(call,%s)" % ",".join([enc(f)] + list(args))


def Eval(pre, fld):
    return "(eval,%s,%s)" % (enc(pre), enc(fld))


# ---------------------------------------------------------------- model specs
def spec(r, p, e, m, g=None, extra=None):
    """r, p: field-name lists; e: AO/DO/AD/PR; m: expr; g: dict name -> arity"""
    parts = ["r=%s" % ",".join(enc(x) for x in r), "p=%s" % ",".join(enc(x) for x in p)]
    for k, n in (g or {}).items():
        parts.append("%s=%d" % (k, n))
    parts.append("e=%s" % e)
    parts.append("m={%s}" % m)
    for x in extra or []:
        parts.append(x)
    return ";".join(parts)


def eq3(k=""):
    r, p = "r" + k, "p" + k
    return And(Eq(V(r, "sub"), V(p, "sub")), Eq(V(r, "obj"), V(p, "obj")), Eq(V(r, "act"), V(p, "act")))


SOA = ["sub", "obj", "act"]
SOAE = ["sub", "obj", "act", "eft"]


def kinds(effects=("AO",)):
    """name -> descriptor {r, p, e, g, m(k) -> matcher for section suffix k, flags}"""
    K = {}

    def add(name, r, p, e, m, g=None, **flags):
        d = {"r": r, "p": p, "e": e, "m": m, "g": g or {}}
        d.update(flags)
        K[name] = d

    for e in effects:
        pf = SOAE if e != "AO" else SOA
        sfx = "" if e == "AO" else "_" + e
        add("acl" + sfx, SOA, pf, e, lambda k: eq3(k))
        add("root" + sfx, SOA, pf, e, lambda k: Or(eq3(k), Eq(V("r" + k, "sub"), Lit("root"))))
        if e == "AO":
            # a string LITERAL whose text holds "r." / "p." in the middle of a word ("super.corp", "app.example"): the escaping of
            # r.x / p.x names must leave it alone (it applies at word boundaries only)
            add("root_dotted", SOA, pf, e, lambda k: Or(eq3(k), Eq(V("r" + k, "sub"), Lit("super.corp")),
                                                        And(Eq(V("r" + k, "obj"), Lit("app.example")), Eq(V("r" + k, "act"), Lit("read")))))
        add("rbac" + sfx, SOA, pf, e,
            lambda k: And(Call("g", V("r" + k, "sub"), V("p" + k, "sub")), Eq(V("r" + k, "obj"), V("p" + k, "obj")),
                          Eq(V("r" + k, "act"), V("p" + k, "act"))), g={"g": 2})
        add("rbac_res" + sfx, SOA, pf, e,
            lambda k: And(Call("g", V("r" + k, "sub"), V("p" + k, "sub")), Call("g2", V("r" + k, "obj"), V("p" + k, "obj")),
                          Eq(V("r" + k, "act"), V("p" + k, "act"))), g={"g": 2, "g2": 2})
        dr = ["sub", "dom", "obj", "act"]
        dp = dr + (["eft"] if e != "AO" else [])
        add("rbac_dom" + sfx, dr, dp, e,
            lambda k: And(Call("g", V("r" + k, "sub"), V("p" + k, "sub"), V("r" + k, "dom")),
                          Eq(V("r" + k, "dom"), V("p" + k, "dom")), Eq(V("r" + k, "obj"), V("p" + k, "obj")),
                          Eq(V("r" + k, "act"), V("p" + k, "act"))), g={"g": 3}, dom=True)
    if "AO" in effects:
        # allow-override with an explicit effect column: a matching deny rule stored before a matching allow rule must not
        # end the evaluation (allow-override completes early only on an allow)
        add("acl_AOe", SOA, SOAE, "AO", lambda k: eq3(k))
        add("rbac_AOe", SOA, SOAE, "AO",
            lambda k: And(Call("g", V("r" + k, "sub"), V("p" + k, "sub")), Eq(V("r" + k, "obj"), V("p" + k, "obj")),
                          Eq(V("r" + k, "act"), V("p" + k, "act"))), g={"g": 2})
    for e in effects:
        if e in ("AD", "DO", "PR"):
            # the effect column is found by NAME (p_eft), wherever the policy definition puts it
            add("acl_eftmid_" + e, SOA, ["sub", "eft", "obj", "act"], e, lambda k: eq3(k))
    add("no_users", ["obj", "act"], ["obj", "act"], "AO",
        lambda k: And(Eq(V("r" + k, "obj"), V("p" + k, "obj")), Eq(V("r" + k, "act"), V("p" + k, "act"))))
    add("no_resources", ["sub", "act"], ["sub", "act"], "AO",
        lambda k: And(Eq(V("r" + k, "sub"), V("p" + k, "sub")), Eq(V("r" + k, "act"), V("p" + k, "act"))))
    add("keymatch", SOA, SOA, "AO",
        lambda k: And(Eq(V("r" + k, "sub"), V("p" + k, "sub")), Call("keyMatch", V("r" + k, "obj"), V("p" + k, "obj")),
                      Eq(V("r" + k, "act"), V("p" + k, "act"))), paths=True)
    add("abac", SOA, SOA, "AO", lambda k: Eq(V("r" + k, "sub"), Prop(V("r" + k, "obj"), "owner")), abac=True)
    add("in_op", SOA, SOA, "AO",
        lambda k: Or(And(Call("g", V("r" + k, "sub"), V("p" + k, "sub")), Eq(V("r" + k, "obj"), V("p" + k, "obj")),
                         Eq(V("r" + k, "act"), V("p" + k, "act"))),
                     In(V("r" + k, "obj"), [Lit("data2"), Lit("data3")])), g={"g": 2})
    add("eval_rule", SOA, ["sub_rule", "obj", "act"], "AO",
        lambda k: And(Eval("p" + k, "sub_rule"), Eq(V("r" + k, "obj"), V("p" + k, "obj")), Eq(V("r" + k, "act"), V("p" + k, "act"))),
        eval=True)
    return K


def spec_of(d, copies=("",)):
    """model spec of a kind descriptor; copies = section suffixes to define ("" = plain)"""
    parts = []
    for k in copies:
        parts.append("r%s=%s" % (k, ",".join(enc(x) for x in d["r"])))
    for k in copies:
        parts.append("p%s=%s" % (k, ",".join(enc(x) for x in d["p"])))
    for gk, n in d["g"].items():
        parts.append("%s=%d" % (gk, n))
    for k in copies:
        parts.append("e%s=%s" % (k, d["e"]))
    for k in copies:
        parts.append("m%s={%s}" % (k, d["m"](k)))
    return ";".join(parts)


def family(effects=("AO",)):
    """name -> (spec, info) (kept for the smoke generators)"""
    F = {}
    for name, d in kinds(effects).items():
        info = {"r": d["r"], "p": d["p"]}
        if d["g"]:
            info["g"] = d["g"]
        for fl in ("dom", "paths", "abac", "eval"):
            if d.get(fl):
                info[fl] = True
        F[name] = (spec_of(d), info)
    return F


# ---------------------------------------------------------------- values
def sval(s):
    return "s." + enc(s)


def ival(i):
    return "i.%d" % i


def mval(d):
    items = []
    for k in sorted(d):
        v = d[k]
        items.append("%s=%s" % (enc(k), ival(v) if isinstance(v, int) and not isinstance(v, bool) else sval(v)))
    return "m." + "&".join(items)


def vals(vs):
    """list of python values (str / int / dict) -> request token"""
    if not vs:
        return "!"
    out = []
    for v in vs:
        if isinstance(v, dict):
            out.append(mval(v))
        elif isinstance(v, bool):
            out.append("b.%d" % (1 if v else 0))
        elif isinstance(v, int):
            out.append(ival(v))
        else:
            out.append(sval(v))
    return ",".join(out)


# ---------------------------------------------------------------- steps
def A(sec, pt, r):
    return "A:%s:%s:%s" % (sec, enc(pt), enc_rule(r))


def AM(sec, pt, rs):
    return "AM:%s:%s:%s" % (sec, enc(pt), enc_rules(rs))


def R(sec, pt, r):
    return "R:%s:%s:%s" % (sec, enc(pt), enc_rule(r))


def RM(sec, pt, rs):
    return "RM:%s:%s:%s" % (sec, enc(pt), enc_rules(rs))


def RF(sec, pt, idx, v):
    return "RF:%s:%s:%d:%s" % (sec, enc(pt), idx, enc_rule(v))


def Q_e(vs):
    return "?e:" + vals(vs)


def Q_em(vs):
    """enforce_mut (the &mut self entry point)"""
    return "?em:" + vals(vs)


def Q_et(vs):
    """enforce with a TUPLE argument (the serde path of EnforceArgs)"""
    return "?et:" + vals(vs)


def Q_ec(k, vs):
    return "?ec:%s:%s" % (enc(k), vals(vs))


def Q_c4(rk, pk, ek, mk, vs):
    """enforce_with_context with a hand-assembled EnforceContext {r_type, p_type, e_type, m_type}"""
    return "?c4:%s:%s:%s:%s:%s" % (enc(rk), enc(pk), enc(ek), enc(mk), vals(vs))


def adapter_M(lines=()):
    return "M@%s@0" % enc_rules(list(lines))


def adapter_F(lines=(), filtered=False):
    return "F@%s@%d" % (enc_rules(list(lines)), 1 if filtered else 0)


def adapter_S(lines=()):
    return "S@%s@0" % enc_rules(list(lines))


def adapter_T(text):
    """StringAdapter over a raw policy TEXT (comments, blank lines, spacing, CRLF as given)"""
    return "T@%s" % enc(text)


def adapter_Ft(text):
    """FileAdapter over a file holding a raw policy TEXT"""
    return "Ft@%s" % enc(text)


def policy_text(rnd, lines, crlf=None):
    """render parsed lines ([ptype, fields...]) as a policy file with a random layout: comment and blank lines
    anywhere, blanks around columns, optional quoting, LF or CRLF, last line with or without terminator"""
    out = []
    crlf = rnd.random() < 0.3 if crlf is None else crlf
    for l in lines:
        while rnd.random() < 0.35:
            out.append(rnd.choice(["", "# a comment", "#p, hidden, rule, x", "   ", "\t", "# g, a, b"]))
        cols = []
        for i, v in enumerate(l):
            pre = rnd.choice(["", "", " ", "  ", "\t"]) if i > 0 else ""
            post = rnd.choice(["", "", " ", "\t"])
            q = ("," in v) or (v != v.strip()) or (i > 0 and rnd.random() < 0.2)
            cols.append(pre + ('"' + v + '"' if q else v) + post)
        out.append(",".join(cols))
    while rnd.random() < 0.3:
        out.append(rnd.choice(["", "# trailing comment"]))
    eol = "\r\n" if crlf else "\n"
    return eol.join(out) + (eol if rnd.random() < 0.7 else "")


def adapter_X(inner, script):
    return "X@%s@%s" % (inner, script if script else "-")


def case(kind, mspec, adapter, flags, steps):
    return "%s %s %s %s %s" % (kind, mspec, adapter, flags or "-", "|".join(steps) if steps else "-")
