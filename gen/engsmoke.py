"""development smoke generator for the engine correspondence"""
import random
from common import Raw
from engine import *


def generate(tier, seed):
    rnd = random.Random(seed)
    F = family(("AO", "DO", "AD", "PR"))
    cases = []
    subs = ["alice", "bob", "admin"]
    objs = ["data1", "data2"]
    acts = ["read", "write"]
    for name, (sp, info) in F.items():
        for it in range(6 if tier == "quick" else 60):
            steps = []
            for _ in range(rnd.randint(3, 12)):
                r = rnd.random()
                p = info["p"]
                rule = []
                for f in p:
                    if f == "sub":
                        rule.append(rnd.choice(subs))
                    elif f == "sub_rule":
                        rule.append(Raw("{%s}" % rnd.choice([Cmp("gt", Prop(V("r", "sub"), "Age"), Lit(18)),
                                                             Eq(Prop(V("r", "sub"), "Name"), Lit("alice"))])))
                    elif f == "obj":
                        rule.append(rnd.choice(objs + (["/data/*", "/da*"] if info.get("paths") else [])))
                    elif f == "act":
                        rule.append(rnd.choice(acts))
                    elif f == "dom":
                        rule.append(rnd.choice(["d1", "d2"]))
                    elif f == "eft":
                        rule.append(rnd.choice(["allow", "deny", "x"]))
                if r < 0.4:
                    steps.append(A("p", "p", rule))
                elif r < 0.5:
                    steps.append(R("p", "p", rule))
                elif r < 0.8 and "g" in info:
                    gname = rnd.choice(list(info["g"].keys()))
                    ar = info["g"][gname]
                    gr = [rnd.choice(subs + objs), rnd.choice(subs + objs)] + (["d1"] if ar == 3 else [])
                    steps.append(A("g", gname, gr) if rnd.random() < 0.7 else R("g", gname, gr))
                elif r < 0.85:
                    steps.append(RF("p", "p", rnd.randint(0, 1), [rnd.choice(subs + [""])]))
                elif r < 0.9:
                    steps.append(rnd.choice(["LD", "SV", "CL", "BR"]))
                # queries
                req = []
                for f in info["r"]:
                    if f == "sub":
                        req.append({"Age": rnd.choice([10, 30]), "Name": rnd.choice(subs)} if info.get("eval") else rnd.choice(subs + ["root"]))
                    elif f == "obj":
                        if info.get("abac"):
                            req.append({"owner": rnd.choice(subs)})
                        else:
                            req.append(rnd.choice(objs + (["/data/x", "/dab"] if info.get("paths") else [])))
                    elif f == "act":
                        req.append(rnd.choice(acts))
                    elif f == "dom":
                        req.append(rnd.choice(["d1", "d2"]))
                steps.append(Q_e(req))
                if rnd.random() < 0.3:
                    steps.append("?ga:p")
                    steps.append("?ga:g")
                if rnd.random() < 0.2 and "g" in info:
                    steps.append("?rf:%s:%s" % (rnd.choice(subs), "d1" if info.get("dom") else "-"))
                    steps.append("?ir:%s:%s" % (rnd.choice(subs), "d1" if info.get("dom") else "-"))
                    steps.append("?ip:%s:%s" % (rnd.choice(subs), "d1" if info.get("dom") else "-"))
                if rnd.random() < 0.2:
                    steps.append("?rv")
                    steps.append("?wl")
            ad = rnd.choice([adapter_M(), "N", adapter_F(), adapter_S()])
            cases.append(case("eng", sp, ad, "w", steps))
    return {"cases": cases, "exhaustive": False, "rule": "smoke", "distribution": {}}


def nontrivial(c, mo):
    return "1" in mo
