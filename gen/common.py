"""token coding shared with extracted/modelrun.ml and harness/src/codec.rs"""


class Raw(str):
    """a token passed through unencoded (an {expr} placeholder)"""


def enc(s):
    if isinstance(s, Raw):
        return str(s)
    if s == "":
        return "~"
    out = []
    for b in s.encode("utf-8"):
        c = chr(b)
        if (b < 128 and c.isalnum()) or c in "_./*":
            out.append(c)
        else:
            out.append("%%%02X" % b)
    return "".join(out)


def enc_rule(r):
    return "!" if len(r) == 0 else ",".join(enc(x) for x in r)


def enc_rules(rs):
    return "-" if len(rs) == 0 else ";".join(enc_rule(r) for r in rs)


def enc_opt(d):
    return "-" if d is None else enc(d)
