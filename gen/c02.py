"""C02 cases: every sequence over {a,i,d} of length 1..N for the four effect
rules (exhaustive), capacity = length; plus the constructor's panic cases."""
import itertools

RULES = ["AO", "DO", "AD", "PR"]


def enc(s):
    if s == "":
        return "~"
    out = []
    for b in s.encode("utf-8"):
        c = chr(b)
        if c.isalnum() and b < 128 or c in "_./*":
            out.append(c)
        else:
            out.append("%%%02X" % b)
    return "".join(out)


def generate(tier, seed):
    n = 8 if tier == "quick" else 12
    cases = []
    for r in RULES:
        for k in range(1, n + 1):
            for seq in itertools.product("aid", repeat=k):
                cases.append("eff %s %s" % (r, "".join(seq)))
    exprs = ["some(where (p_eft == allow))", "!some(where (p_eft == deny))",
             "some(where (p_eft == allow)) && !some(where (p_eft == deny))",
             "priority(p_eft) || deny", "some(where (p_eft == deny))", "", "priority(p_eft)||deny",
             "some(where (p2_eft == allow))"]
    for e in exprs:
        for c in (0, 1, 3):
            cases.append("effnew %s %d" % (enc(e), c))
    return {
        "cases": cases,
        "exhaustive": True,
        "rule": ("all 4 effect expressions x all sequences over {allow,indeterminate,deny} of length 1..%d "
                 "(capacity = length), enumerated exhaustively, plus %d constructor cases "
                 "(unsupported expression / capacity 0 must panic, supported must not). "
                 "non-trivial = sequence case with at least two different effects" % (n, len(exprs) * 3)),
        "distribution": {"max_len": n, "sequence_cases": len(cases) - len(exprs) * 3, "constructor_cases": len(exprs) * 3},
    }


def nontrivial(case, model_out):
    t = case.split(" ")
    return t[0] == "eff" and len(set(t[2])) >= 2
