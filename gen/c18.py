"""C18 cases: ordered pairs of models of the family (old, new) x adapter
contents; sequences of up to 3 reconfiguration calls (set_model, set_adapter,
set_role_manager, set_effector, add_function) interleaved with management calls
(followed by save_policy so that the adapter holds the policy); then every query
is asked of the reconfigured enforcer and of a freshly built twin."""
import itertools
import random
from hist import *

SUBS3 = ["alice", "bob", "admin"]


def generate(tier, seed):
    rnd = random.Random(seed)
    cases = []
    dist = {"pairs": 0, "sequences": 0}
    K = kinds(("AO", "PR"))
    names = ["acl", "root", "rbac", "rbac_res", "rbac_dom", "rbac_PR", "keymatch", "in_op", "no_users"]

    def lines_for(d):
        ls = []
        for _ in range(rnd.randint(0, 4)):
            r = []
            for f in d["p"]:
                r.append({"sub": rnd.choice(SUBS3), "obj": rnd.choice(OBJS + (["/data/*"] if d.get("paths") else [])), "act": "read",
                          "dom": rnd.choice(["d1", "d2"]), "eft": rnd.choice(["allow", "deny"])}[f])
            ls.append(["p"] + r)
        for gk, ar in d["g"].items():
            for _ in range(rnd.randint(0, 3)):
                pool = SUBS3 if gk == "g" else OBJS + ["res"]
                ls.append([gk, rnd.choice(pool), rnd.choice(pool)] + ([rnd.choice(["d1", "d2"])] if ar == 3 else []))
        out = []
        for l in ls:
            if l not in out:
                out.append(l)
        return out

    def qblock(d):
        qs = []
        for _ in range(8):
            req = [{"sub": rnd.choice(SUBS3 + ["root"]), "obj": rnd.choice(OBJS + ["/data/x", "res"]), "act": "read", "dom": rnd.choice(["d1", "d2"])}[f]
                   for f in d["r"]]
            qs.append(Q_e(req))
        dm = "d1" if d.get("dom") else "-"
        qs += ["?ga:p", "?ga:g", "?if"]
        for u in SUBS3:
            qs += ["?rf:%s:%s" % (u, dm), "?uf:%s:%s" % (u, dm), "?ir:%s:%s" % (u, dm), "?hl:%s:admin:%s" % (u, dm)]
        out = []
        for q in qs:
            out += [q, "?2" + q[1:]]
        return out

    pairs = list(itertools.product(names, names))
    if tier != "quick":
        pairs = pairs * 6
    for old, new in pairs:
        do, dn = K[old], K[new]
        # the new model must not call role definitions it does not define while the old one registered them
        # (registered functions are never unregistered: c18_set_model_needs_no_leftover) - keep only safe pairs
        # (a definition that keeps its NAME but changes its arity, e.g. g = _, _ -> g = _, _, _, is fine: the new matcher calls the new arity)
        if not set(do["g"].keys()) <= set(dn["g"].keys()):
            continue
        steps = ["SM:" + spec_of(dn), "FRESH"] + qblock(dn)
        same_shape = do["g"] == dn["g"] or set(do["g"].items()) <= set(dn["g"].items())
        # when a definition changes its arity (or the p shape differs) the file holds rules of the NEW shape only:
        # rules of the old shape would be malformed under the new model
        content = lines_for(dn) + (lines_for(do) if same_shape else [])
        cases.append(case("eng", spec_of(do), adapter_F(content), "-", steps))
        dist["pairs"] += 1
        # the same reconfiguration with a model object that already CARRIES rules (filled through Model::add_policy, or a
        # clone of a model that was in use): they must not survive into the reconfigured enforcer - a fresh one holds the
        # adapter's contents only
        carried = [["p", "p"] + l[1:] for l in lines_for(dn) if l[0] == "p"][:2] + [["g", l[0]] + l[1:] for l in lines_for(dn) if l[0] != "p"][:2]
        if carried and (old == new or len(cases) % 3 == 0):
            steps2 = ["SMR:%s:%s" % (spec_of(dn), enc_rules(carried)), "FRESH"] + qblock(dn)
            cases.append(case("eng", spec_of(do), adapter_F(content), "-", steps2))
            dist["carried_rules"] = dist.get("carried_rules", 0) + 1
    # add_function first, then a set_model whose matcher CALLS that function (a user function, an overridden built-in):
    # the reconfigured enforcer must still have it, as the fresh twin (same components) does
    ufm = And(Call("uf1", V("r", "sub"), V("p", "sub")), Eq(V("r", "obj"), V("p", "obj")), Eq(V("r", "act"), V("p", "act")))
    sp_uf = "r=sub,obj,act;p=sub,obj,act;e=AO;m={%s}" % ufm
    for old in names:
        for fn, newsp, dnew in (("uf1", sp_uf, K["acl"]), ("keyMatch", spec_of(K["keymatch"]), K["keymatch"])):
            for u in ("eq", "prefix", "neq"):
                if set(K[old]["g"].keys()) <= set(dnew["g"].keys()):
                    steps = ["AF:%s:%s" % (fn, u), "SM:" + newsp, "FRESH"] + qblock(dnew)
                    cases.append(case("eng", spec_of(K[old]), adapter_F(lines_for(dnew)), "-", steps))
                    steps = ["AF:%s:%s" % (fn, u), "SM:" + newsp, "SR:10", "SA:" + adapter_F(lines_for(dnew)), "FRESH"] + qblock(dnew)
                    cases.append(case("eng", spec_of(K[old]), adapter_F(lines_for(dnew)), "-", steps))
                    dist["function_then_model"] = dist.get("function_then_model", 0) + 2
    # set_role_manager with auto-build OFF, the replacement manager then filled by an explicit build_role_links (after a role
    # rule was added and saved): the matcher's role function must read the manager now installed, as the twin's does
    dist["role_manager_without_auto_build"] = 0
    for name in names:
        d = K[name]
        if not d["g"]:
            continue
        for gk, ar in d["g"].items():
            pool = SUBS3 if gk == "g" else OBJS + ["res"]
            for a, b2 in itertools.product(pool[:2], pool[1:3]):
                for back_on in (False, True):
                    for depth in (10, 3):
                        steps = ["EB:0", "SR:%d" % depth, A("g", gk, [a, b2] + (["d1"] if ar == 3 else [])), "SV", "BR"] + (["EB:1"] if back_on else []) + \
                                ["FRESH"] + qblock(d)
                        cases.append(case("eng", spec_of(d), adapter_F(lines_for(d)), "-", steps))
                        dist["role_manager_without_auto_build"] += 1
    n_seq = 250 if tier == "quick" else 20000
    for _ in range(n_seq):
        name = rnd.choice(names)
        d = K[name]
        steps = []
        cur = d
        for _ in range(rnd.randint(1, 3)):
            r = rnd.random()
            if r < 0.3:
                cands = [n for n in names if set(cur["g"].items()) <= set(K[n]["g"].items())]
                n2 = rnd.choice(cands)
                steps.append("SM:" + spec_of(K[n2]))
                cur = K[n2]
            elif r < 0.55:
                steps.append("SA:" + adapter_F(lines_for(cur)))
            elif r < 0.7:
                if rnd.random() < 0.5:
                    steps.append("SR:%d" % rnd.choice([10, 10, 3]))
                else:
                    # the replacement manager already holds links over this model's names (auto-build stays on in these histories)
                    steps.append("SRP:%d:%s" % (rnd.choice([10, 10, 3]), enc_rules([[SUBS3[0], SUBS3[-1]], [SUBS3[1], SUBS3[0], "d1"], [SUBS3[-1], SUBS3[1], "d2"], [SUBS3[1], "admin"]])))
            elif r < 0.8:
                steps.append("SE")
            else:
                steps.append("AF:%s:%s" % (rnd.choice(["uf1", "keyMatch", "g"]), rnd.choice(["eq", "prefix"])))
            # management calls, persisted by an explicit save (the file adapter does not persist incrementally)
            if rnd.random() < 0.6:
                rule = []
                for f in cur["p"]:
                    rule.append({"sub": rnd.choice(SUBS3), "obj": rnd.choice(OBJS), "act": "read", "dom": "d1", "eft": "allow"}[f])
                steps.append(A("p", "p", rule))
                if cur["g"]:
                    gk = rnd.choice(list(cur["g"].keys()))
                    steps.append(A("g", gk, [rnd.choice(SUBS3), "admin"] + (["d1"] if cur["g"][gk] == 3 else [])))
                steps.append("SV")
        steps += ["FRESH"] + qblock(cur)
        cases.append(case("eng", spec_of(d), adapter_F(lines_for(d)), "-", steps))
        dist["sequences"] += 1
    return {
        "cases": cases,
        "exhaustive": False,
        "rule": ("every (old, new) pair of model kinds whose role-definition NAMES only grow (registered role functions are never unregistered; a definition may change its arity) over file adapters holding "
                 "rules of both; sequences of 1-3 reconfiguration calls (set_model, set_adapter, set_role_manager, set_effector, add_function incl. overriding a "
                 "built-in) interleaved with management calls persisted by save_policy; then 8 requests, both stores, the filtered mark and all role queries asked "
                 "of the reconfigured enforcer and of a twin freshly built from the same model text, a copy of the policy file and the same components. "
                 "non-trivial = both a grant and a denial occur"),
        "distribution": dist,
    }


def nontrivial(c, mo):
    return "|1|" in mo and "|0|" in mo
