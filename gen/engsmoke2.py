"""development smoke generator #2: reconfiguration, scripted adapters, filtered loads, toggles, RBAC helpers"""
import random
from common import Raw, enc, enc_rule, enc_rules
from engine import *


def generate(tier, seed):
    rnd = random.Random(seed)
    F = family(("AO", "PR"))
    names = [n for n in F if not F[n][1].get("eval") and not F[n][1].get("abac")]
    cases = []
    subs = ["alice", "bob", "admin"]
    objs = ["data1", "data2"]
    acts = ["read", "write"]

    def rule_for(info):
        rule = []
        for f in info["p"]:
            if f == "sub":
                rule.append(rnd.choice(subs))
            elif f == "obj":
                rule.append(rnd.choice(objs))
            elif f == "act":
                rule.append(rnd.choice(acts))
            elif f == "dom":
                rule.append(rnd.choice(["d1", "d2"]))
            elif f == "eft":
                rule.append(rnd.choice(["allow", "deny"]))
        return rule

    def grule_for(info):
        gname = rnd.choice(list(info["g"].keys()))
        ar = info["g"][gname]
        return gname, [rnd.choice(subs + objs), rnd.choice(subs + objs)] + ([rnd.choice(["d1", "d2"])] if ar == 3 else [])

    def req_for(info):
        req = []
        for f in info["r"]:
            req.append({"sub": rnd.choice(subs + ["root"]), "obj": rnd.choice(objs), "act": rnd.choice(acts),
                        "dom": rnd.choice(["d1", "d2"])}[f])
        return req

    def lines_for(info, mem):
        ls = []
        for _ in range(rnd.randint(0, 4)):
            r = rule_for(info)
            ls.append((["p", "p"] if mem else ["p"]) + r)
        if "g" in info:
            for _ in range(rnd.randint(0, 3)):
                gn, gr = grule_for(info)
                ls.append((["g", gn] if mem else [gn]) + gr)
        # dedupe keeping order
        out = []
        for l in ls:
            if l not in out:
                out.append(l)
        return out

    def adapter_for(info):
        k = rnd.random()
        if k < 0.3:
            return adapter_M(lines_for(info, True))
        if k < 0.5:
            return adapter_F(lines_for(info, False))
        if k < 0.65:
            return adapter_S(lines_for(info, False))
        if k < 0.7:
            return "N"
        script = "".join(rnd.choice("pppprfflh") for _ in range(rnd.randint(0, 8)))
        return adapter_X(adapter_M(lines_for(info, True)), script)

    n = 40 if tier == "quick" else 400
    for it in range(n):
        name = rnd.choice(names)
        sp, info = F[name]
        steps = []
        for _ in range(rnd.randint(3, 14)):
            r = rnd.random()
            if r < 0.15:
                steps.append(A("p", "p", rule_for(info)))
            elif r < 0.2:
                steps.append(AM("p", "p", [rule_for(info) for _ in range(rnd.randint(0, 3))]))
            elif r < 0.25:
                steps.append(RM("p", "p", [rule_for(info) for _ in range(rnd.randint(0, 2))]))
            elif r < 0.3:
                steps.append(R("p", "p", rule_for(info)))
            elif r < 0.45 and "g" in info:
                gn, gr = grule_for(info)
                steps.append(rnd.choice([A, A, R])("g", gn, gr))
            elif r < 0.5 and "g" in info:
                gn, gr = grule_for(info)
                gn2, gr2 = grule_for(info)
                steps.append(rnd.choice([AM, RM])("g", gn, [gr, gr2] if gn == gn2 else [gr]))
            elif r < 0.55 and "g" in info:
                steps.append(RF("g", "g", rnd.randint(0, 1), [rnd.choice(subs + [""])]))
            elif r < 0.6:
                steps.append(rnd.choice(["LD", "SV", "CL", "BR"]))
            elif r < 0.65:
                steps.append("LF:%s:%s" % (enc_rule([rnd.choice(subs + [""])]), enc_rule([rnd.choice(subs + [""])] if rnd.random() < 0.5 else [])))
            elif r < 0.7:
                n2 = rnd.choice(names)
                steps.append("SM:" + F[n2][0])
                name, (sp2, info) = n2, F[n2]
            elif r < 0.75:
                steps.append("SA:" + adapter_for(info))
            elif r < 0.8:
                steps.append("SR:%d" % rnd.choice([10, 10, 2, 0]))
            elif r < 0.85:
                steps.append(rnd.choice(["EE:0", "EE:1", "ES:0", "ES:1", "EB:0", "EB:1", "EN:0", "EN:1", "EN:1", "SE"]))
            elif r < 0.9:
                u, ro = rnd.choice(subs), rnd.choice(subs + objs)
                d = rnd.choice(["d1", "d2"]) if info.get("dom") else "-"
                steps.append(rnd.choice(["ar:%s:%s:%s" % (u, ro, d), "dr:%s:%s:%s" % (u, ro, d), "drs:%s:%s" % (u, d),
                                         "du:%s" % u, "dra:%s" % ro, "dpsf:%s" % u,
                                         "ars:%s:%s:%s" % (u, enc_rule([ro, rnd.choice(subs)]), d),
                                         "dp:%s" % enc_rule([rnd.choice(objs)]),
                                         "ap:%s:%s" % (u, enc_rule(rule_for(info)[1:]))]))
            else:
                steps.append("AF:%s:%s" % (rnd.choice(["uf1", "keyMatch"]), rnd.choice(["eq", "neq", "prefix"])))
            steps.append(Q_e(req_for(info)))
            q = rnd.random()
            d = rnd.choice(["d1", "d2"]) if info.get("dom") else "-"
            if q < 0.3:
                steps += ["?ga:p", "?ga:g", "?if"]
            elif q < 0.5:
                u = rnd.choice(subs)
                steps += ["?rf:%s:%s" % (u, d), "?uf:%s:%s" % (u, d), "?ir:%s:%s" % (u, d), "?ip:%s:%s" % (u, d),
                          "?hl:%s:%s:%s" % (u, rnd.choice(subs + objs), d)]
            elif q < 0.6:
                steps += ["?rv", "?wl"]
            elif q < 0.7:
                steps += ["?iu:%s" % enc_rule(rule_for(info)[1:3]), "?vl:p:p:0", "?gf:p:p:0:%s" % enc_rule([rnd.choice(subs)])]
        cases.append(case("eng", sp, adapter_for(info), "w", steps))
    return {"cases": cases, "exhaustive": False, "rule": "smoke2", "distribution": {}}


def nontrivial(c, mo):
    return "1" in mo
