"""C07 cases: domain models with the SAME user / role / object names in every
domain; mutations confined to other domains; the observed domain's decisions
and role queries recorded before and after every call."""
import itertools
import random
from hist import *

DOMS = ["d1", "d2", "d3"]


def generate(tier, seed):
    rnd = random.Random(seed)
    cases = []
    dist = {"exhaustive": 0, "random": 0}
    K = kinds(("AO", "DO", "AD", "PR"))
    for name in ("rbac_dom", "rbac_dom_DO", "rbac_dom_AD", "rbac_dom_PR"):
        d = K[name]
        sp = spec_of(d)
        eft = name != "rbac_dom"

        def prule(s, dm, o):
            return [s, dm, o, "read"] + ([rnd.choice(["allow", "deny"])] if eft else [])

        def block(dm):
            qs = []
            for s in SUBS + ["admin"]:
                for o in OBJS:
                    qs.append(Q_e([s, dm, o, "read"]))
                e = enc(dm)
                qs += ["?rf:%s:%s" % (s, e), "?uf:%s:%s" % (s, e), "?ir:%s:%s" % (s, e)]
                if dm != "":
                    # permission LISTINGS filter the stored rules by [user, domain], and an empty filter value is the documented
                    # wildcard: for the domain named "" they list every domain by design, so they are not part of its view
                    qs += ["?ip:%s:%s" % (s, e), "?pf:%s:%s" % (s, e)]
            return qs

        def confined_ops(dm):
            """calls confined to domain dm"""
            ops = []
            for s in SUBS + ["admin"]:
                ops.append(A("p", "p", prule(s, dm, "data1")))
                ops.append(R("p", "p", prule(s, dm, "data1")))
                for r in ROLES:
                    ops.append(A("g", "g", [s, r, dm]))
                    ops.append(R("g", "g", [s, r, dm]))
                ops.append("ar:%s:admin:%s" % (s, enc(dm)))
                ops.append("dr:%s:admin:%s" % (s, enc(dm)))
                if dm != "":
                    ops.append("drs:%s:%s" % (s, enc(dm)))
            ops.append(AM("g", "g", [["alice", "admin", dm], ["bob", "admin", dm]]))
            ops.append(RM("g", "g", [["alice", "admin", dm], ["bob", "admin", dm]]))
            if dm != "":       # an empty filter value is a wildcard: such a removal is not confined to the domain named ""
                ops.append(RF("p", "p", 1, [dm]))
                ops.append(RF("p", "p", 0, ["alice", dm]))
                ops.append(RF("g", "g", 2, [dm]))
                ops.append(RF("g", "g", 0, ["alice", "", dm]))
            ops.append(AM("p", "p", [prule("alice", dm, "data2"), prule("bob", dm, "data2")]))
            return ops

        # the second and third configuration use the two domain names a role manager could confuse: the EMPTY name and the
        # name of the default domain ("DEFAULT" is what a None domain is filed under)
        n_full = 12 if tier == "quick" else 120
        for doms, obs, n_states in ((DOMS, "d1", n_full), (["", "DEFAULT", "d3"], "", max(2, n_full // 4)),
                                    (["DEFAULT", "", "d3"], "DEFAULT", max(2, n_full // 4))):
          others = doms[1:]
          for _ in range(n_states):
              lines = []
              for dm in doms:
                  for s in rnd.sample(SUBS + ["admin"], rnd.randint(0, 2)):
                      lines.append(["p", "p"] + prule(s, dm, rnd.choice(OBJS)))
                  for _ in range(rnd.randint(0, 2)):
                      lines.append(["g", "g", rnd.choice(SUBS + ["admin"]), rnd.choice(ROLES), dm])
              uniq = []
              for l in lines:
                  if l not in uniq:
                      uniq.append(l)
              ops = [o for dm in others for o in confined_ops(dm)]
              for o in ops:
                  steps = block(obs) + [o] + block(obs)
                  cases.append(case("eng", sp, adapter_M(uniq), "-", steps))
                  dist["exhaustive"] += 1
              # the observed domain holds a grouping rule that was stored while automatic link building was off (stored, not
              # linked): a call confined to another domain must not build it (nor anything else in the observed domain)
              pre = ["EB:0", A("g", "g", [rnd.choice(SUBS), "admin", obs]), A("p", "p", prule("admin", obs, "data1")), "EB:1"]
              for o in rnd.sample(ops, 12 if tier == "quick" else 40) + [RF("g", "g", 2, [others[1]]), RF("g", "g", 0, ["alice", "", others[1]]), "drs:alice:%s" % others[1]]:
                  steps = pre + block(obs) + [o] + block(obs)
                  cases.append(case("eng", sp, adapter_M(uniq), "-", steps))
                  dist["unbuilt_link"] = dist.get("unbuilt_link", 0) + 1
              # a grant and its revocation inside the OBSERVED domain while another domain holds the SAME (user, role) pair:
              # afterwards the observed domain's view is what it was before (the revocation must not be skipped because
              # "another rule still asserts the link" - that rule belongs to another tenant)
              for u in SUBS[:2]:
                  other = others[0]
                  steps = [A("g", "g", [u, "admin", other])] + block(obs) + ["MK:0", A("g", "g", [u, "admin", obs]), R("g", "g", [u, "admin", obs]), "MK:1"] + block(obs)
                  cases.append(case("eng", sp, adapter_M([l for l in uniq if l[:4] != ["g", "g", u, "admin"]]), "-", steps))
                  steps = [A("g", "g", [u, "admin", other])] + block(obs) + ["MK:0", "ar:%s:admin:%s" % (u, enc(obs)), "dr:%s:admin:%s" % (u, enc(obs)), "MK:1"] + block(obs)
                  cases.append(case("eng", sp, adapter_M([l for l in uniq if l[:4] != ["g", "g", u, "admin"]]), "-", steps))
                  dist["own_grant_revoke"] = dist.get("own_grant_revoke", 0) + 2
              for _ in range(3):
                  n = rnd.choice([5, 20, 60])
                  steps = block(obs)
                  for _ in range(n):
                      steps += [rnd.choice(ops)] + block(obs)
                  cases.append(case("eng", sp, adapter_M(uniq), "-", steps))
                  dist["random"] += 1
    return {
        "cases": cases,
        "exhaustive": False,
        "rule": ("RBAC-with-domains models under all four effect rules, 3 domains sharing the same user/role/object names; random small stores; every single "
                 "call confined to a domain other than the observed one (adds, removes, batches, filtered removals constraining the domain column, RBAC helpers "
                 "with Some(domain)) and random confined histories up to length 60; the same from states in which the observed domain holds a "
                 "grouping rule stored while automatic link building was switched off; all decisions and role queries of the observed domain before and after every "
                 "call. non-trivial = the observed domain grants something"),
        "distribution": dist,
    }


def nontrivial(c, mo):
    return "|1|" in mo
