"""C04 cases: management / RBAC histories on a priority model (rule order is
observable through decisions), over Memory / Null / File adapters, auto-save
on and off, with the whole observable store dumped after every call."""
import itertools
import random
from hist import *


def build_case(sp, adapter, pre, ops, dom, views_every=False):
    steps = list(pre)
    for o in ops:
        steps.append(o)
        steps += observe_steps(dom)
        if views_every:
            steps += view_steps(dom)
    steps += view_steps(dom)
    return case("eng", sp, adapter, "-", steps)


def generate(tier, seed):
    rnd = random.Random(seed)
    cases = []
    dist = {"exhaustive_len": 0, "exhaustive": 0, "random": 0, "adapters": {}, "random_len_by_20": {}}
    for dom in (False, True):
        d = prio_dom_kind() if dom else prio_kind()
        sp = spec_of(d)
        al = mgmt_alphabet(dom)
        L = 2 if tier == "quick" else 2
        # every history of length <= L from an empty store and from a seeded store (Memory, auto-save on)
        starts = [[], initial_lines(rnd, dom, True)]
        if dom and tier == "quick":
            al_ex = al[::2]
        else:
            al_ex = al
        for st in starts:
            for k in range(1, L + 1):
                for h in itertools.product(al_ex, repeat=k):
                    cases.append(build_case(sp, adapter_M(st), [], list(h), dom))
                    dist["exhaustive"] += 1
            if tier != "quick":
                for h in itertools.product(al[::3], repeat=3):
                    cases.append(build_case(sp, adapter_M(st), [], list(h), dom))
                    dist["exhaustive"] += 1
        dist["exhaustive_len"] = L
        # random long histories over all adapters, auto-save on/off
        n_rand = 60 if tier == "quick" else 6000
        for _ in range(n_rand):
            ak = rnd.choice(["M", "M", "N", "F"])
            ad = {"M": adapter_M(initial_lines(rnd, dom, True)), "N": "N", "F": adapter_F(initial_lines(rnd, dom, False))}[ak]
            dist["adapters"][ak] = dist["adapters"].get(ak, 0) + 1
            pre = ["ES:0"] if rnd.random() < 0.3 else []
            n = rnd.choice([5, 10, 20, 40, 80, 200]) if tier != "quick" else rnd.choice([5, 10, 20, 40])
            ops = [pick_op(rnd, al, dom) for _ in range(n)]
            b = n // 20 * 20
            dist["random_len_by_20"][b] = dist["random_len_by_20"].get(b, 0) + 1
            cases.append(build_case(sp, ad, pre, ops, dom, views_every=(n <= 10)))
            dist["random"] += 1
    # batch corners on adapters that let every batch through to the model (Null, File; Memory with auto-save off): a refused
    # batch must not reorder the store, an accepted one keeps an in-batch duplicate at its first position
    dist["batch_corners"] = 0
    for dom in (False, True):
        d = prio_dom_kind() if dom else prio_kind()
        sp = spec_of(d)
        for rep in range(3 if tier == "quick" else 20):
            st = initial_lines(rnd, dom, True, maxp=5)
            for ad, pre in (("N", []), (adapter_F([l[1:] for l in st]), []), (adapter_M(st), ["ES:0"])):
                seed_ops = [A("p", "p", r) for r in p_rules(dom)[:4]] if ad == "N" else []
                for o in batch_corner_ops(dom):
                    cases.append(build_case(sp, ad, pre, seed_ops + [o], dom, views_every=True))
                    dist["batch_corners"] += 1
    # two policy types per section (p/p2, g/g2) sharing names across the sibling types
    sp = multi_spec()
    al = multi_alphabet()
    dist["multi_type"] = 0
    for k in (1, 2):
        hs = list(itertools.product(al, repeat=k))
        if k == 2 and tier == "quick":
            hs = rnd.sample(hs, 600)
        for h in hs:
            steps = []
            for o in h:
                steps += [o] + multi_observe()
            steps += ["?gp:p:p2", "?gp:g:g2", "?gf:p:p2:0:ops", "?vl:g:g2:1", "?hp:p:p2:%s" % enc_rule(MP[1]), "?hp:g:g2:%s" % enc_rule(MG2[0]),
                      "?vl:p:p2:0", "?gf:g:g2:1:ops", "?gf:p:p:0:~,data1", "?hp:p:p:%s" % enc_rule(MP[2]), "?gp:p:p", "?gp:g:g"]
            cases.append(case("eng", sp, adapter_M(multi_lines()), "-", steps))
            dist["multi_type"] += 1
    return {
        "cases": cases,
        "exhaustive": False,
        "rule": ("priority models (with and without a domain column): every history of <= 2 calls from an alphabet of ~45 management/RBAC calls "
                 "(single, batch incl. internal duplicate / empty batch / partly present, filtered with interior wildcards, unknown policy type, "
                 "every RBAC helper, clear) from an empty and from a loaded store over MemoryAdapter; seeded random histories up to length 200 over "
                 "Memory/Null/File adapters with auto-save on and off; after EVERY call: get_all_policy, get_all_grouping_policy and order-sensitive "
                 "decisions, plus the read views. non-trivial = some call changed the store"),
        "distribution": dist,
    }


def nontrivial(c, mo):
    if "r=" not in mo:
        return False
    return "|1|" in "|" + mo.split("r=")[1] + "|"
