"""C01 cases: (model kind | random matcher) x stored policy x role links x requests.
One case = one configuration (model, adapter contents) followed by every
request of the cross product plus out-of-universe / wrong-arity / typed values."""
import itertools
import random
from common import Raw
from engine import *

SUBS = ["alice", "bob"]
ROLES = ["admin"]
OBJS = ["data1", "data2"]
ACTS = ["read"]
DOMS = ["d1", "d2"]
EFTS = ["allow", "deny", "x", "Allow", "DENY"]   # look-alikes of the two effect words are OTHER values (indeterminate)


def field_universe(f, d):
    if f == "sub":
        return SUBS + ROLES
    if f == "obj":
        return (["/data/*", "/d*", "/data/1"] if d.get("paths") else OBJS + (["res"] if "g2" in d["g"] else []))
    if f == "act":
        return ACTS
    if f == "dom":
        return DOMS
    if f == "eft":
        return EFTS
    if f == "sub_rule":
        return [Raw("{%s}" % Cmp("gt", Prop(V("r", "sub"), "Age"), Lit(18))),
                Raw("{%s}" % Eq(Prop(V("r", "sub"), "Name"), Lit("alice"))),
                Raw("{%s}" % Lit(True))]
    raise ValueError(f)


def req_universe(f, d):
    if f == "sub":
        if d.get("eval"):
            return [{"Age": 30, "Name": "alice"}, {"Age": 10, "Name": "bob"}, "alice"]
        return SUBS + ROLES + ["root", "", "super.corp", "super_corp"]
    if f == "obj":
        if d.get("abac"):
            return [{"owner": "alice"}, {"owner": "bob"}, {"other": "alice"}, "data1"]
        if d.get("paths"):
            return ["/data/1", "/data/", "/d", "/x", "/dé", ""]
        return OBJS + ["data3", ""]
    if f == "act":
        return ACTS + ["write"]
    if f == "dom":
        return DOMS + [""]
    raise ValueError(f)


def requests_for(d, rnd):
    unis = [req_universe(f, d) for f in d["r"]]
    reqs = [list(x) for x in itertools.product(*unis)]
    if len(reqs) > 40:
        reqs = rnd.sample(reqs, 40)
    n = len(d["r"])
    base = reqs[0] if reqs else []
    # wrong arity, typed values
    extra = [base[:-1], base + ["extra"], []]
    if n >= 1:
        extra.append([7] + base[1:])
        extra.append([{"k": "v"}] + base[1:])
    return reqs + extra


def link_pool(d, gk, ar):
    names = SUBS + ROLES if gk == "g" else OBJS + ["res"]
    pool = []
    for a in names:
        for b in names:
            if ar == 2:
                pool.append([a, b])
            else:
                for dm in DOMS:
                    pool.append([a, b, dm])
    return pool


def configs_for(d, rnd, budget, max_rules, max_links):
    """yield (p_rules, g_lines) configurations: exhaustive when the space is within budget, else sampled"""
    ppool = [list(x) for x in itertools.product(*[field_universe(f, d) for f in d["p"]])]
    gpools = {gk: link_pool(d, gk, ar) for gk, ar in d["g"].items()}

    def rule_lists():
        for k in range(0, max_rules + 1):
            for rs in itertools.permutations(ppool, k):
                yield list(rs)

    def link_sets():
        allg = [(gk, l) for gk, pool in gpools.items() for l in pool]
        for k in range(0, max_links + 1):
            for ls in itertools.combinations(allg, k):
                yield list(ls)

    n_rules = sum(len(list(itertools.permutations(range(len(ppool)), k))) if len(ppool) <= 12 else 10 ** 9 for k in range(max_rules + 1))
    allg_n = sum(len(p) for p in gpools.values())
    n_links = sum(len(list(itertools.combinations(range(allg_n), k))) for k in range(max_links + 1)) if allg_n <= 40 else 10 ** 9
    if n_rules * n_links <= budget:
        for rs in rule_lists():
            for ls in link_sets():
                yield rs, ls, True
    else:
        allg = [(gk, l) for gk, pool in gpools.items() for l in pool]
        for _ in range(budget):
            k = rnd.randint(0, max_rules + 1)
            rs = rnd.sample(ppool, min(k, len(ppool)))
            kl = rnd.randint(0, max_links + 1) if allg else 0
            ls = rnd.sample(allg, min(kl, len(allg)))
            yield rs, ls, False


# ---- random matchers ------------------------------------------------------
def rand_atom(rnd, k=""):
    r, p = "r" + k, "p" + k
    c = rnd.random()
    rf = rnd.choice(SOA)
    pf = rnd.choice(SOA)
    if c < 0.3:
        return Eq(V(r, rf), V(p, pf if rnd.random() < 0.3 else rf))
    if c < 0.4:
        return Eq(V(r, rf), Lit(rnd.choice(SUBS + OBJS + ACTS)))
    if c < 0.5:
        return Neq(V(r, rf), V(p, rf))
    if c < 0.65:
        return Call("g", V(r, "sub"), V(p, "sub"))
    if c < 0.72:
        return Call("g2", V(r, "obj"), V(p, "obj"))
    if c < 0.8:
        return Call("keyMatch", V(r, "obj"), V(p, "obj"))
    if c < 0.85:
        return In(V(r, rf), [Lit(rnd.choice(SUBS + OBJS)), V(p, rf)])
    if c < 0.9:
        return Lit(rnd.random() < 0.5)
    if c < 0.98:
        return Cmp(rnd.choice(["lt", "le", "gt", "ge"]), V(r, rf), V(p, rf))
    return Eq(Prop(V(r, "sub"), "k"), V(p, "sub"))


def rand_expr(rnd, depth, k=""):
    if depth == 0 or rnd.random() < 0.25:
        return rand_atom(rnd, k)
    c = rnd.random()
    if c < 0.4:
        return And(rand_expr(rnd, depth - 1, k), rand_expr(rnd, depth - 1, k))
    if c < 0.75:
        return Or(rand_expr(rnd, depth - 1, k), rand_expr(rnd, depth - 1, k))
    if c < 0.9:
        return Not(rand_expr(rnd, depth - 1, k))
    return "(and,%s,%s)" % (rand_atom(rnd, k), rand_expr(rnd, depth - 1, k))


def make_case(d, sp, rs, ls, reqs, rnd, adapter_kind):
    # now and then one stored rule is malformed: a value too many or one too few (reaching it must be an error)
    if rs and rnd.random() < 0.12:
        rs = [list(r) for r in rs]
        i = rnd.randrange(len(rs))
        rs[i] = rs[i] + ["extra"] if rnd.random() < 0.6 else rs[i][:-1]
        rs = [r for r in rs if r]
    if adapter_kind == "M":
        lines = [["p", "p"] + r for r in rs] + [["g", gk] + l for gk, l in ls]
        ad = adapter_M(lines)
    else:
        lines = [["p"] + r for r in rs] + [[gk] + l for gk, l in ls]
        ad = adapter_F(lines) if adapter_kind == "F" else adapter_S(lines)
    # three entry points: enforce(Vec), enforce_mut, enforce(tuple) (the serde path of EnforceArgs)
    steps = [(Q_e(r) if c < 0.6 else Q_em(r) if c < 0.7 else Q_et(r)) for r, c in ((r, rnd.random()) for r in reqs)] + ["?ga:p", "?ga:g"]
    return case("eng", sp, ad, "-", steps)


def generate(tier, seed):
    rnd = random.Random(seed)
    K = kinds(("AO", "DO", "AD", "PR"))
    cases = []
    per_kind = 60 if tier == "quick" else 1500
    dist = {"kinds": {}, "exhaustive_kinds": [], "random_matchers": 0}
    for name, d in K.items():
        sp = spec_of(d)
        reqs = requests_for(d, rnd)
        n = 0
        all_ex = True
        for rs, ls, ex in configs_for(d, rnd, per_kind, 2 if tier == "quick" else 3, 2):
            all_ex = all_ex and ex
            cases.append(make_case(d, sp, rs, ls, reqs, rnd, rnd.choice("MFFS")))
            n += 1
        dist["kinds"][name] = n
        if all_ex:
            dist["exhaustive_kinds"].append(name)
    # random matchers over a fixed 3-field request/policy shape with g and g2 defined
    n_rand = 150 if tier == "quick" else 4000
    for i in range(n_rand):
        eft = rnd.choice(["AO", "AO", "DO", "AD", "PR"])
        d = {"r": SOA, "p": SOAE if eft != "AO" else SOA, "e": eft, "g": {"g": 2, "g2": 2}}
        m = rand_expr(rnd, rnd.randint(1, 4))
        d["m"] = (lambda mm: (lambda k: mm))(m)
        sp = spec_of(d)
        reqs = requests_for(d, rnd)
        if len(reqs) > 24:
            reqs = rnd.sample(reqs, 24)
        ppool = [list(x) for x in itertools.product(*[field_universe(f, d) for f in d["p"]])]
        rs = rnd.sample(ppool, rnd.randint(0, min(4, len(ppool))))
        allg = [(gk, l) for gk, ar in d["g"].items() for l in link_pool(d, gk, ar)]
        ls = rnd.sample(allg, rnd.randint(0, 4))
        cases.append(make_case(d, sp, rs, ls, reqs, rnd, rnd.choice("MFS")))
        dist["random_matchers"] += 1
    # states BUILT AT RUN TIME: deeper role graphs (chains, diamonds, redundant and cyclic paths over 5 names) grown and
    # pruned by management calls before the requests, so the decisions depend on the graph the incremental updates left
    n_rt = 120 if tier == "quick" else 3000
    names = ["alice", "bob", "staff", "admin", "root"]
    dist["runtime_built"] = 0
    for i in range(n_rt):
        name = rnd.choice(["rbac", "rbac_DO", "rbac_PR", "rbac_dom", "rbac_res"])
        d = K[name]
        sp = spec_of(d)
        dom = bool(d.get("dom"))
        steps = []
        live = []
        # sometimes the role manager is replaced while automatic link building is off and the links are built explicitly
        swap = rnd.random() < 0.25
        if swap:
            steps += ["EB:0", "SR:10"]
        for _ in range(rnd.randint(3, 10)):
            if live and rnd.random() < 0.35:
                l = rnd.choice(live)
                live.remove(l)
                steps.append(R("g", "g", l))
            else:
                a, b = rnd.sample(names, 2)
                l = [a, b] + ([rnd.choice(DOMS)] if dom else [])
                if l not in live:
                    live.append(l)
                steps.append(A("g", "g", l))
        prs = []
        for _ in range(rnd.randint(1, 3)):
            r = [rnd.choice(names)] + ([rnd.choice(DOMS)] if dom else []) + [rnd.choice(OBJS), "read"] + ([rnd.choice(EFTS)] if "eft" in d["p"] else [])
            prs.append(r)
            steps.append(A("p", "p", r))
        reqs = [[s_] + ([dm] if dom else []) + [o, "read"] for s_ in names for dm in (DOMS if dom else [None]) for o in OBJS]
        if swap:
            steps += ["BR"] + ([] if rnd.random() < 0.5 else ["EB:1"])
        steps += [Q_e(r) for r in reqs] + ["?ga:p", "?ga:g"]
        cases.append(case("eng", sp, adapter_M([]), "-", steps))
        dist["runtime_built"] += 1
    return {
        "cases": cases,
        "exhaustive": False,
        "rule": ("[run-time built] role graphs over 5 names grown and pruned by add/remove_grouping_policy calls (redundant paths, cycles, re-adds) before the "
                 "request cross product; [loaded] %d documented model kinds (ACL, superuser, without users/resources, RBAC, resource roles, domains; deny-override, "
                 "allow-and-deny, priority variants with an effect column incl. a value that is neither allow nor deny; keyMatch; ABAC attribute; "
                 "`in`; rule-in-policy eval) x policies of <= %d rules (every ordered list when the space fits the budget, sampled otherwise) x <= 2 role links, "
                 "loaded through Memory/File/String adapters, x the request cross product (+ out-of-universe, empty, wrong-arity, int- and map-typed values); "
                 "plus %d seeded random matchers of depth <= 4 over == != && || ! in g g2 keyMatch literals comparisons attributes. "
                 "non-trivial = configuration whose requests receive both a grant and a denial" % (len(K), 2 if tier == "quick" else 3, n_rand)),
        "distribution": dist,
    }


def nontrivial(c, mo):
    if "r=" not in mo:
        return False
    outs = mo.split("r=")[1].split("|")
    return "1" in outs and "0" in outs
