"""C20 cases (stress part; the protocol theorems are in Coq): 2-16 threads
issuing the request cross product in seeded orders against a shared Enforcer /
CachedEnforcer, with / without a writer under an outer RwLock and a thread
using the role-manager handle, under a watchdog."""
import random


def generate(tier, seed):
    rnd = random.Random(seed)
    cases = []
    iters = 1500 if tier == "quick" else 20000
    reps = 1 if tier == "quick" else 6
    for rep in range(reps):
        for th in (2, 4, 8, 16):
            for cached in (0, 1):
                for writer in (0, 1):
                    for handle in (0, 1, 2):
                        cases.append("stress %d %d %d %d %d %d" % (th, cached, writer, handle, rnd.randrange(1 << 30), iters))
    # a thread that keeps the role-manager handle's WRITE guard for 30 ms at a time (a batch of unrelated links under one guard)
    for th in (2, 8):
        for cached in (0, 1):
            for writer in (0, 1):
                cases.append("stress %d %d %d 3 %d %d" % (th, cached, writer, rnd.randrange(1 << 30), max(200, iters // 5)))
    # pattern-heavy model (200 rules, 400 distinct keyMatch2 / keyMatch3 / regexMatch patterns), no writer: the exported matcher
    # functions are called from many threads with more distinct patterns than a compiled-pattern cache would hold
    for th in (2, 8, 16):
        for cached in (0, 1):
            cases.append("stressp %d %d %d %d" % (th, cached, rnd.randrange(1 << 30), max(60, iters // 12)))
    return {
        "cases": cases,
        "exhaustive": False,
        "rule": ("threads in {2,4,8,16} x {Enforcer, CachedEnforcer} x {no writer, writer applying a 10-step history under an outer RwLock} x "
                 "{no handle thread, a thread reading through get_role_manager(), a thread reading AND writing unrelated links through it, a thread holding the handle's write guard for 30 ms at a time}; every thread issues %d requests drawn, in a seeded order, from the 20-request cross "
                 "product asked plainly and under a hand-assembled context selecting a second matcher (40 distinct questions); each decision must equal the serial decision of some prefix state, the final state must be the serial end "
                 "state, and all threads must finish within the watchdog bound. non-trivial = a writer or a handle thread runs concurrently" % iters),
        "distribution": {"iterations_per_thread": iters, "configurations": len(cases)},
    }


def nontrivial(c, mo):
    t = c.split(" ")
    if t[0] == "stressp":
        return True
    return t[3] == "1" or t[4] != "0"
