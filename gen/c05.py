"""C05 cases: grouping-rule histories (all role definitions, with / without
domains), reloads, clear_policy, set_role_manager; after every call all
decisions and role queries are recorded, build_role_links is called, and they
are recorded again."""
import itertools
import random
from hist import *


def g_alphabet(dom, two_defs):
    gr = g_rules(dom)
    d = "d1" if dom else "-"
    al = []
    for r in gr[:5]:
        al.append(A("g", "g", r))
        al.append(R("g", "g", r))
    al += [AM("g", "g", [gr[0], gr[1]]), AM("g", "g", [gr[0], gr[3]]), AM("g", "g", [gr[2], gr[2]]), RM("g", "g", [gr[0], gr[1]]),
           RM("g", "g", [gr[0], gr[4]]), RM("g", "g", [gr[1], gr[1], gr[0]]), RM("g", "g", [gr[0], gr[1], gr[0]]),   # a stored rule named twice
           AM("g", "g", [gr[3], gr[0], gr[3]]), RF("g", "g", 0, ["alice"]), RF("g", "g", 1, ["admin"]), RF("g", "g", 0, ["", "alice"]),
           "CL", "LD", "SR:10", "ar:bob:admin:%s" % d, "dr:bob:admin:%s" % d, "drs:alice:%s" % d, "du:alice", "dra:admin",
           "LF:%s:%s" % (enc_rule(["alice"]), enc_rule(["alice"])), A("g", "g", ["carl", "carl"] + (["d1"] if dom else [])),
           R("g", "g", ["carl", "carl"] + (["d1"] if dom else [])), R("g", "g", ["nobody", "nothing"] + (["d1"] if dom else [])),
           A("p", "p", p_rules(dom)[0])]
    # set_role_manager with a replacement manager that already HOLDS links (its own, or those of another enforcer it was taken
    # from): the links must be rebuilt from this enforcer's stored rules only (auto-build is on in all of these histories)
    al += ["SRP:10:" + enc_rules([gr[3], gr[4], ["carl", "admin"] + (["d1"] if dom else [])]),
           "SRP:10:" + enc_rules([["alice", "admin"], ["bob", "alice"]] + ([["bob", "admin", "d2"]] if dom else []))]
    if dom:
        # the SAME (user, role) pairs in a second domain: a link in d1 must come and go with ITS rule only
        for r in gr[:2]:
            r2 = r[:2] + ["d2"]
            al += [A("g", "g", r2), R("g", "g", r2)]
        al += [RF("g", "g", 2, ["d2"]), "drs:alice:d2", "dr:alice:admin:d2"]
    if two_defs:
        al += [A("g", "g2", ["data1", "res"]), R("g", "g2", ["data1", "res"]), A("g", "g2", ["data2", "res"]), RF("g", "g2", 1, ["res"])]
    return al


def block(dom, two_defs):
    qs = role_query_steps(dom)
    d = ["d1"] if dom else []
    qs += [Q_e([s] + d + [o, "read"]) for s in SUBS + ["admin"] for o in OBJS]
    return qs


def generate(tier, seed):
    rnd = random.Random(seed)
    cases = []
    dist = {"exhaustive": 0, "random": 0}
    K = kinds(("AO", "PR"))
    variants = [("rbac_PR", False, False), ("rbac_dom_PR", True, False), ("rbac_res", False, True)]
    for name, dom, two in variants:
        d = K[name]
        sp = spec_of(d)
        al = g_alphabet(dom, two)
        qs = block(dom, two)
        L = 2
        al_ex = al if (tier != "quick" or name == "rbac_PR") else al[::2]
        for k in range(1, L + 1):
            for h in itertools.product(al_ex, repeat=k):
                steps = []
                for o in h:
                    steps += [o] + qs + ["BR"] + qs
                lines = [["p", "p"] + r for r in p_rules(dom)[:3]] + [["g", "g"] + g_rules(dom)[1]]
                cases.append(case("eng", sp, adapter_M(lines), "-", steps))
                dist["exhaustive"] += 1
        n_rand = 40 if tier == "quick" else 5000
        for _ in range(n_rand):
            n = rnd.choice([5, 10, 30, 100]) if tier != "quick" else rnd.choice([5, 10, 30])
            steps = []
            for _ in range(n):
                steps += [pick_op(rnd, al, dom)] + qs + ["BR"] + qs
            lines = initial_lines(rnd, dom, True)
            cases.append(case("eng", sp, adapter_M(lines), "-", steps))
            dist["random"] += 1
    # a removal batch that names a stored grouping rule TWICE: the rule goes once, and every other rule of the batch still
    # loses its link (a link update that stops at the repeated rule would leave the later links behind)
    dist["repeated_rule_batches"] = 0
    for name, dom, two in variants[:2]:
        d = K[name]
        sp = spec_of(d)
        qs = block(dom, two)
        gr, pr = g_rules(dom), p_rules(dom)
        adm = [r for r in pr if r[0] == "admin"][:2] or [["admin"] + pr[0][1:]]
        lines = [["p", "p"] + r for r in pr[:2] + adm] + [["g", "g"] + gr[0], ["g", "g"] + gr[2], ["g", "g"] + gr[3]]
        # (the last two name a stored rule together with one that is NOT stored but whose names are known: the batch is refused,
        #  nothing may be unlinked - with auto-save off the refusal is the model's own)
        for batch in ([gr[0], gr[0], gr[2]], [gr[2], gr[0], gr[2], gr[3]], [gr[3], gr[3]], [gr[0], gr[2], gr[0]], [gr[0], gr[1]], [gr[2], gr[5], gr[3]]):
            for pre in ([], ["EB:0", "EB:1"], [A("g", "g", gr[5])], ["ES:0"]):
                steps = list(qs)
                for o in pre + [RM("g", "g", batch)]:
                    steps += [o] + qs + ["BR"] + qs
                cases.append(case("eng", sp, adapter_M(lines), "-", steps))
                dist["repeated_rule_batches"] += 1
    # two role definitions of DIFFERENT arity (g = _, _ ; g2 = _, _, _) over shared names
    m = And(Call("g", V("r", "sub"), V("p", "sub")), Call("g2", V("r", "obj"), V("p", "obj"), V("r", "dom")), Eq(V("r", "act"), V("p", "act")))
    sp = "r=sub,dom,obj,act;p=sub,obj,act;g=2;g2=3;e=AO;m={%s}" % m
    GA = [["alice", "admin"], ["bob", "admin"], ["data1", "res"]]
    GB = [["data1", "res", "d1"], ["data2", "res", "d1"], ["alice", "admin", "d1"], ["data1", "res", "d2"]]
    al = []
    for r in GA:
        al += [A("g", "g", r), R("g", "g", r)]
    for r in GB:
        al += [A("g", "g2", r), R("g", "g2", r)]
    al += [RF("g", "g2", 0, ["data1"]), RF("g", "g2", 1, ["res"]), RF("g", "g2", 2, ["d1"]), RF("g", "g", 1, ["admin"]), RF("g", "g", 0, ["data1"]),
           AM("g", "g2", GB[:2]), RM("g", "g2", GB[:2]), "CL", "LD"]
    qs = [Q_e(["alice", "d1", "data1", "read"]), Q_e(["alice", "d1", "data2", "read"]), Q_e(["bob", "d2", "data1", "read"]),
          "?hl:data1:res:d1", "?hl:data1:res:-", "?hl:alice:admin:-", "?hl:alice:admin:d1", "?rf:alice:-", "?uf:admin:-"]
    lines = [["p", "p", "admin", "res", "read"], ["g", "g"] + GA[0], ["g", "g"] + GA[2], ["g", "g2"] + GB[0], ["g", "g2"] + GB[2]]
    for k in (1, 2):
        hs = list(itertools.product(al, repeat=k))
        if k == 2 and tier == "quick":
            hs = rnd.sample(hs, 300)
        for h in hs:
            steps = []
            for o in h:
                steps += [o] + qs + ["BR"] + qs
            cases.append(case("eng", sp, adapter_M(lines), "-", steps))
            dist["exhaustive"] += 1
    # p/p2 + g/g2 with names shared across the sibling types
    sp = multi_spec()
    al = [o for o in multi_alphabet() if o.split(":")[1:2] == ["g"] or o[:2] in ("dr", "du", "CL")] + ["LD", "SR:10", "SRP:10:" + enc_rules([["bob", "admin"], ["data2", "res"], ["alice", "ops"]])]
    qs = [Q_e(["alice", "data1", "read"]), Q_e(["bob", "data2", "read"]), Q_e(["ops", "res", "read"]), "?rf:alice:-", "?uf:ops:-", "?ir:bob:-",
          "?hl:data1:res:-", "?hl:alice:admin:-"]
    for k in (1, 2):
        hs = list(itertools.product(al, repeat=k))
        if k == 2 and tier == "quick":
            hs = rnd.sample(hs, 300)
        for h in hs:
            steps = []
            for o in h:
                steps += [o] + qs + ["BR"] + qs
            cases.append(case("eng", sp, adapter_M(multi_lines()), "-", steps))
            dist["exhaustive"] += 1
    return {
        "cases": cases,
        "exhaustive": False,
        "rule": ("RBAC priority model, RBAC with domains, RBAC with resource roles (two definitions): every history of <= 2 calls over an alphabet of ~35 "
                 "grouping mutations (single/batch/filtered, rejected batches, absent and self-referential rules, RBAC helpers), clear_policy, load_policy, "
                 "load_filtered_policy, set_role_manager; seeded random histories up to length 100; after every call: all role queries and decisions, "
                 "build_role_links, the same again. non-trivial = some role query answer is non-empty"),
        "distribution": dist,
    }


def nontrivial(c, mo):
    return "admin" in mo or "alice" in mo
