"""C06 cases: the request-controlled string corpus (every string of length <= 3
over an alphabet with 1-4 byte characters and pattern metacharacters; seeded
random longer ones) as the key of every exported matcher against grammar
patterns, and as request values at arities 0..6 against model kinds using the
built-in matchers."""
import itertools
import random
from common import enc, Raw
from engine import *
import c15

ALPHA = ["a", "/", "*", ":", "{", "}", "?", ".", '"', " ", "é", "€", "😀"]


def corpus():
    out = [""]
    for k in (1, 2, 3):
        for t in itertools.product(ALPHA, repeat=k):
            out.append("".join(t))
    return out


def generate(tier, seed):
    rnd = random.Random(seed)
    cases = []
    C = corpus()
    pats = [p for p in c15.patterns(3)]
    pats = rnd.sample(pats, 40)
    text_pats = ["/a/*", "/é*", "*", "/a", "a*", "/€/*", ""]
    dist = {"corpus": len(C), "pm_cases": 0, "enforce_cases": 0}
    keys = C if tier != "quick" else rnd.sample(C, 500) + ["/é", "é", "/a€", "😀/", "/"]
    longer = ["".join(rnd.choice(ALPHA) for _ in range(rnd.randint(4, 24))) for _ in range(200 if tier == "quick" else 5000)]
    for k in keys + longer:
        ke = enc(k)
        for p in (pats if tier != "quick" else rnd.sample(pats, 4)):
            pt = c15.pat_tok(p)
            for fn in ("km2", "km3", "km4", "km5"):
                cases.append("pm %s %s %s" % (fn, ke, pt))
            cases.append("pm kg2 %s %s %s" % (ke, pt, enc("x")))
            cases.append("pm kg3 %s %s %s" % (ke, pt, enc("x")))
        for tp in text_pats:
            cases.append("pm km %s %s" % (ke, enc(tp)))
            cases.append("pm kg %s %s" % (ke, enc(tp)))
        cases.append("pm rm %s %s" % (ke, enc("^(GET|POST)$")))
    dist["pm_cases"] = len(cases)
    # request values through enforce
    K = kinds(("AO", "PR"))
    models = {
        "keymatch": (K["keymatch"], [["alice", "/a/*", "read"], ["é", "/é*", "read"], ["alice", "*", "x"]]),
        "rbac": (K["rbac"], [["alice", "a", "a"], ["admin", "é", "€"]]),
        "rbac_dom_PR": (K["rbac_dom_PR"], [["alice", "d", "a", "a", "deny"], ["é", "é", "é", "é", "allow"]]),
        "abac": (K["abac"], []),
        "in_op": (K["in_op"], [["alice", "a", "a"]]),
    }
    # keyMatch2 / keyGet2 / regexMatch in matchers
    km2 = dict(K["keymatch"])
    km2["m"] = lambda k: And(Eq(V("r", "sub"), V("p", "sub")), Call("keyMatch2", V("r", "obj"), V("p", "obj")), Call("regexMatch", V("r", "act"), V("p", "act")))
    models["keymatch2"] = (km2, [["alice", "/a/:x", "^(GET|POST)$"], ["é", "/:x/b/*", "GET"]])
    # deny-override / allow-and-deny models whose matcher can FAIL on the request (keyMatch on a non-string value): the failure
    # must surface as an error on whichever rule is reached first - also on a rule that could not change the outcome - never as
    # the effect rule's default grant
    for ek in ("DO", "AD"):
        kd = dict(K["keymatch"])
        kd["p"] = SOAE
        kd["e"] = ek
        models["keymatch_" + ek] = (kd, [["alice", "/a/*", "read", "allow"], ["bob", "/secret/*", "read", "deny"], ["é", "/é*", "read", "allow"]])
    vals_pool = keys if tier != "quick" else rnd.sample(C, 120) + ["/é", "é", "GET", "alice"]
    for name, (d, rules) in models.items():
        sp = spec_of(d)
        lines = [["p", "p"] + r for r in rules] + ([["g", "g", "é", "admin"] + (["d"] if d["g"].get("g") == 3 else [])] if d["g"] else [])
        n = len(d["r"])
        steps = []
        for ar in range(0, 7):
            for _ in range(6 if tier == "quick" else 60):
                steps.append(Q_e([rnd.choice(vals_pool) for _ in range(ar)]))
                # the tuple (serde) form, also with integer / boolean / map typed values
                steps.append(Q_et([rnd.choice(vals_pool + [7, -1, True, {"k": "v"}, {"owner": "alice", "n": 3}]) for _ in range(ar)]))
        for _ in range(120 if tier == "quick" else 3000):
            # the subject matches a stored rule so that the built-in matchers are actually reached
            req = []
            for f in d["r"]:
                if f == "sub":
                    req.append(rnd.choice(["alice", "é", "é", "alice", rnd.choice(vals_pool)]))
                elif f == "act":
                    req.append(rnd.choice(["read", "GET", "a", "€", rnd.choice(vals_pool)]))
                elif f == "dom":
                    req.append(rnd.choice(["d", "é", rnd.choice(vals_pool)]))
                else:
                    req.append(rnd.choice(vals_pool + ["/a/b", "/a/", "/éx", "/q/b/c"]))
            if d.get("abac"):
                req[1] = {"owner": rnd.choice(["alice", "é", rnd.choice(vals_pool)])}
            elif rules and rnd.random() < 0.5:
                # derived from a stored rule: only the object is request-controlled noise or a near match
                rl = rnd.choice(rules)
                req = []
                for i, f in enumerate(d["r"]):
                    v = rl[i]
                    if f == "obj":
                        v = rnd.choice(["/a/b", "/a/", "/a", "/éx", "/é", "/q/b/c", "/q/b/", "a", "é", rnd.choice(vals_pool), "/a/" + rnd.choice(vals_pool)])
                    elif f == "act" and v.startswith("^"):
                        v = rnd.choice(["GET", "POST", "PUT", rnd.choice(vals_pool)])
                    req.append(v)
            steps.append(Q_e(req))
        # a stored rule's own subject / action with a NON-STRING object (and subject): the matcher's built-in function has no
        # overload for it, the evaluation fails on exactly the rules whose subject test passes - an error, never a decision
        for rl in rules:
            for tv in (7, True, {"k": "v"}):
                req = [rl[i] for i in range(len(d["r"]))]
                if "obj" in d["r"]:
                    req[d["r"].index("obj")] = tv
                    steps.append(Q_et(req))
                req2 = [rl[i] for i in range(len(d["r"]))]
                req2[0] = tv
                steps.append(Q_et(req2))
        # chunk into cases of 60 requests
        for i in range(0, len(steps), 60):
            cases.append(case("eng", sp, adapter_M(lines), "-", steps[i:i + 60]))
            dist["enforce_cases"] += 1
    # a matcher whose VALUE comes from a stored rule text (m = eval(p.sub_rule), alone or as the first / last operand): a stored
    # text that does not evaluate to a boolean (a number, a string) is an evaluation error on the rule where it is reached - never
    # "no match, go on to the next rule", never a grant
    dist["eval_value_cases"] = 0
    T = lambda e: Raw("{%s}" % e)
    age, nm = Prop(V("r", "sub"), "Age"), Prop(V("r", "sub"), "Name")
    texts = [T(age), T(nm), T(Cmp("gt", age, Lit(18))), T(Lit(True)), T(Lit(False)), T(Eq(nm, Lit("alice"))), T(Lit(7)), T(Lit("x"))]
    subs = [{"Age": 30, "Name": "alice"}, {"Age": 10, "Name": "bob"}]
    for ek, pf in (("AO", ["sub_rule", "obj", "act"]), ("DO", ["sub_rule", "obj", "act", "eft"]), ("AD", ["sub_rule", "obj", "act", "eft"])):
        ms = [Eval("p", "sub_rule"),
              And(Eq(V("r", "obj"), V("p", "obj")), Eval("p", "sub_rule")),
              And(Eval("p", "sub_rule"), Eq(V("r", "obj"), V("p", "obj")))]
        for mi, m in enumerate(ms):
            sp = spec(SOA, pf, ek, m)
            combos = list(itertools.permutations(texts, 2)) + [(t,) for t in texts]
            if tier == "quick":
                combos = rnd.sample(combos, 14)
            for combo in combos:
                rules = []
                for j, t in enumerate(combo):
                    rules.append([t, "data1", "read"] + ([["allow", "deny"][(j + mi) % 2]] if "eft" in pf else []))
                lines = [["p", "p"] + r for r in rules]
                steps = [Q_e([sv, o, "read"]) for sv in subs for o in ("data1", "data2")]
                cases.append(case("eng", sp, adapter_M(lines), "-", steps))
                dist["eval_value_cases"] += 1
    # malformed STORED rules (a value too many / too few) at every position among well-formed ones: a request that
    # reaches one gets an error, never a grant; plain and context-qualified
    dist["malformed_rule_cases"] = 0
    for name in ("acl", "rbac", "rbac_PR", "acl_DO"):
        d = kinds(("AO", "PR", "DO"))[name]
        hasg = bool(d["g"])
        eft = "eft" in d["p"]
        good = [["alice", "data1", "read"] + (["allow"] if eft else []), ["bob", "data1", "read"] + (["deny"] if eft else []),
                ["alice", "data2", "read"] + (["allow"] if eft else [])]
        bads = [["alice", "data1", "read"] + (["allow"] if eft else []) + ["extra"], ["bob", "data1"], ["alice", "data2", "read", "allow", "x", "y"],
                ["carol"], ["alice", "data1", "read"][: (3 if eft else 2)]]
        reqs = [[s_, o, "read"] for s_ in ("alice", "bob", "carol") for o in ("data1", "data2")]
        for bad in bads:
            for pos in range(3):
                rules = [list(r) for r in good[:2]]
                rules.insert(pos, bad)
                for copies in (("",), ("", "2")):
                    sp = spec_of(d, copies)
                    lines = []
                    for k in copies:
                        lines += [["p", "p" + k] + r for r in rules]
                    if hasg:
                        lines.append(["g", "g", "carol", "alice"])
                    steps = [Q_e(r) for r in reqs]
                    if len(copies) > 1:
                        steps += [Q_ec("2", r) for r in reqs]
                    for ak in ("M", "F"):
                        ad = adapter_M(lines) if ak == "M" else adapter_F([l[1:] for l in lines])
                        cases.append(case("eng", sp, ad, "-", steps))
                        dist["malformed_rule_cases"] += 1
                # the malformed rule added at run time
                sp = spec_of(d)
                steps = [A("p", "p", r) for r in rules] + [Q_e(r) for r in reqs]
                cases.append(case("eng", sp, adapter_M([]), "-", steps))
                dist["malformed_rule_cases"] += 1
    return {
        "cases": cases,
        "exhaustive": False,
        "rule": ("the %d strings of length <= 3 over {a / * : { } ? . \\\" space é € 😀} (%s) plus seeded random longer ones: as key of key_match2/3/4/5, "
                 "key_get2/3 against grammar patterns, of key_match/key_get against text patterns, of regex_match; and as request values at every arity "
                 "0..6 and at the right arity against keyMatch / keyMatch2+regexMatch / RBAC / domain-priority / ABAC / `in` models holding multi-byte rules. "
                 "Malformed stored rules (one value too many / too few, loaded or added at run time) at every position among well-formed ones, plain and "
                 "context-qualified. Every call under catch_unwind and a watchdog. non-trivial = a matcher matched or a request was granted"
                 % (len(C), "all of them" if tier != "quick" else "a seeded sample of 500")),
        "distribution": dist,
    }


def nontrivial(c, mo):
    return mo == "1" or mo.startswith("t.") and mo != "t.~" or "|1|" in mo
