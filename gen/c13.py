"""C13 cases: RBAC configurations (cycles, diamonds, users that are roles,
with and without domains) reached by management histories; implicit roles /
permissions, direct listings, decisions for every user x permission, implicit
users, and the delete_* calls."""
import itertools
import random
from hist import *

NAMES = ["alice", "bob", "admin", "ops", "root"]
PERMS = [["data1", "read"], ["data1", "write"], ["data2", "read"]]


def generate(tier, seed):
    rnd = random.Random(seed)
    cases = []
    dist = {"plain": 0, "domain": 0, "with_cycle": 0}
    K = kinds(("AO",))
    for dom in (False, True):
        d = K["rbac_dom" if dom else "rbac"]
        sp = spec_of(d)
        dm = "d1" if dom else "-"
        n = 250 if tier == "quick" else 15000
        for _ in range(n):
            links = set()
            for _ in range(rnd.randint(0, 6)):
                a, b = rnd.choice(NAMES), rnd.choice(NAMES)
                links.add((a, b))
            if rnd.random() < 0.3:
                links |= {("alice", "admin"), ("admin", "ops"), ("ops", "alice")}   # cycle
                dist["with_cycle"] += 1
            if rnd.random() < 0.3:
                links |= {("bob", "admin"), ("bob", "ops"), ("admin", "root"), ("ops", "root")}  # diamond
            rules = []
            for _ in range(rnd.randint(0, 5)):
                s = rnd.choice(NAMES)
                pm = rnd.choice(PERMS)
                r = [s] + (["d1"] if dom else []) + pm
                if r not in rules:
                    rules.append(r)
            # reach the configuration by a management history (adds in random order, some removals and re-adds)
            steps = []
            ops = [A("g", "g", [a, b] + (["d1"] if dom else [])) for a, b in links] + [A("p", "p", r) for r in rules]
            rnd.shuffle(ops)
            steps += ops
            if ops and rnd.random() < 0.5:
                o = rnd.choice(ops)
                steps += ["R" + o[1:], o]
            if dom:
                steps.append(A("g", "g", ["alice", "root", "d2"]))      # another domain must not matter
                steps.append(A("p", "p", ["alice", "d2", "data2", "write"]))
            q = ["?ga:p", "?ga:g"]
            for u in NAMES + ["nobody"]:
                q += ["?ir:%s:%s" % (u, dm), "?ip:%s:%s" % (u, dm), "?rf:%s:%s" % (u, dm), "?uf:%s:%s" % (u, dm)]
                for pm in PERMS:
                    q.append(Q_e([u] + (["d1"] if dom else []) + pm))
            if not dom:
                for pm in PERMS:
                    q.append("?iu:%s" % enc_rule(pm))
            steps += q
            # a delete call, then everything again
            u = rnd.choice(NAMES)
            dl = rnd.choice(["du:%s" % u, "dra:%s" % u, "dpsf:%s" % u, "drs:%s:%s" % (u, dm)] + (["dp:%s" % enc_rule(rnd.choice(PERMS))] if not dom else []))
            steps += [dl] + q
            cases.append(case("eng", sp, adapter_M(), "-", steps))
            dist["domain" if dom else "plain"] += 1
    # exhaustive small scope: every set of <= 3 links over 3 names (self links included), one permission per name,
    # every delete call from each state
    N3 = ["alice", "bob", "admin"]
    pairs = [(a, b) for a in N3 for b in N3]
    dist["exhaustive_small"] = 0
    for dom in (False, True):
        d = K["rbac_dom" if dom else "rbac"]
        sp = spec_of(d)
        dm = "d1" if dom else "-"
        dd = ["d1"] if dom else []
        q = ["?ga:p", "?ga:g"]
        for u in N3 + ["nobody"]:
            q += ["?ir:%s:%s" % (u, dm), "?ip:%s:%s" % (u, dm), "?rf:%s:%s" % (u, dm), "?uf:%s:%s" % (u, dm), "?hr:%s:admin:%s" % (u, dm)]
            for pm in PERMS[:2]:
                q.append(Q_e([u] + dd + pm))
        if not dom:
            q += ["?iu:%s" % enc_rule(pm) for pm in PERMS[:2]]
        dels = ["du:alice", "du:admin", "dra:admin", "dra:alice", "dpsf:admin", "drs:alice:%s" % dm, "drs:bob:%s" % dm] + \
               (["dp:%s" % enc_rule(PERMS[0])] if not dom else [])
        sets = [ls for k in range(0, 4) for ls in itertools.combinations(pairs, k)]
        if tier == "quick":
            sets = rnd.sample(sets, 60)
        for ls in sets:
            lines = [["g", "g", a, b] + dd for a, b in ls] + [["p", "p", "admin"] + dd + PERMS[0], ["p", "p", "alice"] + dd + PERMS[1],
                                                            ["p", "p", "bob"] + dd + PERMS[0]]
            if dom:
                lines += [["g", "g", "bob", "admin", "d2"], ["p", "p", "admin", "d2"] + PERMS[1]]
            for dl in (dels if tier != "quick" else rnd.sample(dels, 3)):
                cases.append(case("eng", sp, adapter_M(lines), "-", q + [dl] + q))
                dist["exhaustive_small"] += 1
    # names whose CONCATENATIONS coincide (ann+a_team = anna+_team = an+na_team; with a domain also team+d1 = tea+md1): a
    # decision for one (user, role) pair must never be answered from what was learnt about another pair (link caches keyed by a
    # digest of the names); the decisions are asked in both orders, before and after the role listings
    dist["colliding_names"] = 0
    US, RS = ["ann", "anna", "an"], ["a_team", "_team", "na_team"]
    upairs = [(u, r) for u in US for r in RS]
    for dom in (False, True):
        d = K["rbac_dom" if dom else "rbac"]
        sp = spec_of(d)
        dm = "d1" if dom else "-"
        dd = ["d1"] if dom else []
        sets = [ls for k in (1, 2) for ls in itertools.combinations(upairs, k)]
        if tier == "quick":
            sets = rnd.sample(sets, 20)
        for ls in sets:
            lines = [["g", "g", a, b] + dd for a, b in ls] + [["p", "p", r] + dd + PERMS[i] for i, r in enumerate(RS)]
            if dom:
                lines += [["g", "g", "ann", "a_tea", "md1"], ["p", "p", "a_tea", "md1"] + PERMS[0]]
            es = [Q_e([u] + dd + pm) for u in US for pm in PERMS]
            if dom:
                es += [Q_e(["ann", "md1"] + PERMS[0]), Q_e(["ann", "d1"] + PERMS[0])]
            lst = []
            for u in US:
                lst += ["?ir:%s:%s" % (u, dm), "?ip:%s:%s" % (u, dm), "?rf:%s:%s" % (u, dm)]
            for order in (es, list(reversed(es))):
                cases.append(case("eng", sp, adapter_M(lines), "-", ["?ga:p", "?ga:g"] + order + lst + order))
                dist["colliding_names"] += 1
    return {
        "cases": cases,
        "exhaustive": False,
        "rule": ("RBAC (and RBAC with domains) allow-override models; random link sets over 5 names incl. cycles, diamonds and self-referential users, depth far "
                 "below the limit, random permissions, the configuration reached by a shuffled management history with a removal and re-add; then for every "
                 "name: implicit roles, implicit permissions, roles/users listings, the decision for every permission; implicit users per permission; then one "
                 "of delete_user / delete_role / delete_permission / delete_permissions_for_user / delete_roles_for_user and everything again; plus every link set of <= 3 links over 3 names (quick: a sample) with every delete call; plus link sets over names whose concatenations coincide, the decisions asked in both orders. non-trivial = some implicit role set has >= 2 members"),
        "distribution": dist,
    }


def nontrivial(c, mo):
    return any(("," in x and not x.startswith("p,") and ";" not in x) for x in mo.split("|"))
