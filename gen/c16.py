"""C16 cases: text formats. (a) CSV policy lines: safe values x spacing /
quoting variants; (b) model definitions x layouts from a layout grammar;
(c) to_text round trip; (d) totality stream: noise and grammar-mutated texts."""
import random
from common import enc, enc_rule
import engine

EDGE = ["x, ", " ,y ", " lead", "trail ", " a b ", "\tx,\t"]
VALUES = ["alice", "data1", "read", "a b", "x,y", "a, b", "é", "日本", "p", "#x", "a#b", "r.sub", "1", "-", "/path/*", "k=v", ";", "[x]", "back\\slash"]


def csv_line_variant(rnd, cols):
    out = []
    for i, v in enumerate(cols):
        pre = rnd.choice(["", "", " ", "  ", "\t"])
        post = rnd.choice(["", "", " ", "  ", "\t"])
        # a value with leading / trailing blanks can only be carried inside quotes (kept verbatim there)
        q = ("," in v) or (v != v.strip()) or (i > 0 and rnd.random() < 0.25)
        out.append(pre + ('"' + v + '"' if q else v) + post)
    return ",".join(out)


def model_conf(d, rnd, layout):
    """render a model kind under a layout: returns (text, plain_text)"""
    secs = [("request_definition", "r", ", ".join(d["r"])), ("policy_definition", "p", ", ".join(d["p"]))]
    gl = [(gk, ", ".join(["_"] * n)) for gk, n in d["g"].items()]
    eff = engine_effect(d["e"])
    lines = []

    def blank_or_comment():
        if not layout:
            return
        for _ in range(rnd.randint(0, 2)):
            lines.append(rnd.choice(["", "  ", "# a comment", "; another = one", "#[fake]"]))

    def kv(k, v, breakable=False):
        if not layout:
            lines.append("%s = %s" % (k, v))
            return
        sp1, sp2 = rnd.choice(["", " ", "  ", "\t"]), rnd.choice(["", " ", "  "])
        ind = rnd.choice(["", " ", "    "])
        if breakable and rnd.random() < 0.6:
            # continuation breaks between lexemes (at " && " / " || " boundaries)
            parts = []
            cur = ""
            for tokn in v.split(" "):
                if tokn in ("&&", "||") and rnd.random() < 0.7:
                    parts.append(cur + " " + tokn + " \\")
                    cur = ""
                else:
                    cur = (cur + " " + tokn) if cur else tokn
            parts.append(cur)
            first = True
            for ptxt in parts:
                if first:
                    lines.append("%s%s%s=%s%s" % (ind, k, sp1, sp2, ptxt))
                    first = False
                else:
                    lines.append(rnd.choice(["", "  ", "\t", "      "]) + ptxt)
        else:
            lines.append("%s%s%s=%s%s%s" % (ind, k, sp1, sp2, v, rnd.choice(["", " ", "  # trailing comment", " # p.x, r.y", " # see issue #31", "  #a#b"]) if k[0] in "rp" else ""))
            # a dangling continuation mark after a complete value, ended by a blank or comment line: the next
            # definition must not be glued to this one
            if rnd.random() < 0.12:
                lines[-1] += rnd.choice([" \\", "\\", "  \\ "])
                lines.append(rnd.choice(["", "# note", "   ", "; note"]))

    def header(n):
        if layout:
            lines.append(rnd.choice(["", " ", "  "]) + "[" + n + "]" + rnd.choice(["", " ", "\t"]))
        else:
            lines.append("[" + n + "]")

    blank_or_comment()
    header("request_definition")
    blank_or_comment()
    kv("r", ", ".join(d["r"]) if not layout else rnd.choice([", ", ",", " , "]).join(d["r"]))
    blank_or_comment()
    header("policy_definition")
    kv("p", ", ".join(d["p"]) if not layout else rnd.choice([", ", ",", " , "]).join(d["p"]))
    blank_or_comment()
    if gl:
        header("role_definition")
        for gk, gv in gl:
            kv(gk, gv)
        blank_or_comment()
    header("policy_effect")
    kv("e", eff)
    blank_or_comment()
    header("matchers")
    blank_or_comment()
    return lines


def engine_effect(tag):
    return {"AO": "some(where (p.eft == allow))", "DO": "!some(where (p.eft == deny))",
            "AD": "some(where (p.eft == allow)) && !some(where (p.eft == deny))",
            "PR": "priority(p.eft) || deny"}[tag]


MATCHERS = {
    "acl": 'r.sub == p.sub && r.obj == p.obj && r.act == p.act',
    "root": 'r.sub == p.sub && r.obj == p.obj && r.act == p.act || r.sub == "root"',
    "rbac": 'g(r.sub, p.sub) && r.obj == p.obj && r.act == p.act',
    "rbac_res": 'g(r.sub, p.sub) && g2(r.obj, p.obj) && r.act == p.act',
    "rbac_dom": 'g(r.sub, p.sub, r.dom) && r.dom == p.dom && r.obj == p.obj && r.act == p.act',
    "keymatch": 'r.sub == p.sub && keyMatch(r.obj, p.obj) && r.act == p.act',
    "abac": 'r.sub == r.obj.owner',
    "in_op": 'g(r.sub, p.sub) && r.obj == p.obj && r.act == p.act || r.obj in ["data2", "data3"]',
    "eval_rule": 'eval(p.sub_rule) && r.obj == p.obj && r.act == p.act',
    "no_users": 'r.obj == p.obj && r.act == p.act',
    "no_resources": 'r.sub == p.sub && r.act == p.act',
}


def generate(tier, seed):
    rnd = random.Random(seed)
    cases = []
    dist = {"csv_lines": 0, "layouts": 0, "totext": 0, "noise": 0, "crlf": 0, "continuations": 0, "comment_lines": 0}
    # (a) CSV lines
    n_csv = 1500 if tier == "quick" else 30000
    for _ in range(n_csv):
        n = rnd.randint(1, 5)
        cols = [rnd.choice(["p", "p2", "g", "g2"])] + [rnd.choice(VALUES + EDGE) for _ in range(n)]
        cases.append("csvx %s %s" % (enc(csv_line_variant(rnd, cols)), enc_rule(cols)))
        dist["csv_lines"] += 1
    for v in VALUES + ["", " ", '"', 'a"b', "a\nb"]:
        cases.append("csvf " + enc(v))
    # fixed corner lines
    for l in ['"a,b" , c', '"a', 'a"', '""', '" "', ",", ",,", "a,", ",a", " # c", "#c", "", "   ", 'p, "x, y", z', 'a,"b"c,d', 'a,b\r', "\ta\t,\tb\t",
              'p, a , "b" ,"c,d"', '"a""b"', "a,\"b", "é , 日本"]:
        cases.append("csv " + enc(l))
    # (a2) whole policy TEXTS through the adapters' own line loops (StringAdapter / FileAdapter): comment and blank lines,
    # CRLF, spacing, quoting; the loaded stores must be exactly the rows of the text
    dist["policy_texts"] = 0
    sp_pol = "r=sub,obj,act;p=sub,obj,act;p2=sub,act;g=2;g2=3;e=AO;m={%s}" % engine.eq3()
    for _ in range(150 if tier == "quick" else 3000):
        rows = []
        for _ in range(rnd.randint(0, 6)):
            k = rnd.choice(["p", "p", "p2", "g", "g2"])
            n = {"p": 3, "p2": 2, "g": 2, "g2": 3}[k]
            r = [k] + [rnd.choice(VALUES + EDGE) for _ in range(n)]
            if r not in rows:      # (a repeated row is a set-semantics question of C04, not of the text format)
                rows.append(r)
        text = engine.policy_text(rnd, rows)
        # lines whose first column is no policy type of the model - a multi-byte first character (also a byte order mark in
        # front of the first line), an unknown section letter, an unknown type of a known section: skipped, never a panic
        if rnd.random() < 0.35:
            tl = text.split("\n")
            for _ in range(rnd.randint(1, 3)):
                junk = rnd.choice(["\u00e9t\u00e9, x, y, z", "\u65e5\u672c, a, b", "\uff50, a, b, c", "P, a, b, c", "x, a, b", "pp, a, b, c",
                                   "g3, a, b", "\u00e9", "\U0001F600p, a, b, c"])
                tl.insert(rnd.randint(0, len(tl)), junk)
            text = "\n".join(tl)
            if rnd.random() < 0.4:
                text = "\ufeff" + text
            dist["junk_first_column"] = dist.get("junk_first_column", 0) + 1
        ad = engine.adapter_T(text) if rnd.random() < 0.5 else engine.adapter_Ft(text)
        cases.append(engine.case("eng", sp_pol, ad, "-", ["?ga:p", "?ga:g", "LD", "?ga:p", "?ga:g"]))
        in_class = all(v != "" and v == v.strip() and '"' not in v and "\n" not in v and "\r" not in v and not v.startswith("#")
                       for r in rows for v in r[1:])
        if ad.startswith("Ft@") and in_class:
            # ... and RENDERED back by the file adapter (save_policy): what a fresh adapter reads from the rendered file, and
            # what a reload yields, are again exactly those rows - policy rules and role rules alike, comma-bearing values
            # included. Only for rows over the values save_policy writes losslessly (C09's class, `csv_safe_r` of Model/Csv.v:
            # a value with edge blanks is kept by a QUOTED column of the source text but written unquoted by csv_field -
            # `c16q_unquoted_edge_blank_lost` - which the properties exclude)
            cases.append(engine.case("eng", sp_pol, ad, "-", ["?ga:p", "?ga:g", "LD", "?ga:p", "?ga:g", "SV", "?rv", "LD", "?ga:p", "?ga:g"]))
            dist["rendered_back"] = dist.get("rendered_back", 0) + 1
        dist["policy_texts"] += 1
    # (b) model layouts
    K = engine.kinds(("AO", "DO", "AD", "PR"))
    n_lay = 12 if tier == "quick" else 200
    for name, d in K.items():
        base = name.split("_")[0] if name.split("_")[0] in MATCHERS else name
        key = name if name in MATCHERS else ("rbac_res" if name.startswith("rbac_res") else "rbac_dom" if name.startswith("rbac_dom") else base)
        m = MATCHERS[key]
        for it in range(n_lay + 1):
            layout = it > 0
            lines = model_conf(d, rnd, layout)
            # the matcher line, possibly with continuation breaks
            if layout and rnd.random() < 0.6:
                toks = m.split(" ")
                parts, cur = [], ""
                for t in toks:
                    if t in ("&&", "||") and rnd.random() < 0.6:
                        parts.append(cur + " " + t + rnd.choice([" \\", "\\", "  \\ "]))
                        cur = ""
                    else:
                        cur = (cur + " " + t) if cur else t
                parts.append(cur)
                lines.append("m = " + parts[0])
                for ptxt in parts[1:]:
                    lines.append(rnd.choice(["", "  ", "\t", "      "]) + ptxt)
                if len(parts) > 1:
                    dist["continuations"] += 1
            else:
                lines.append("m = " + m)
            if layout and rnd.random() < 0.3:
                lines.append("# end")
            dist["comment_lines"] += sum(1 for l in lines if l.strip().startswith(("#", ";")))
            eol = "\r\n" if (layout and rnd.random() < 0.3) else "\n"
            if eol == "\r\n":
                dist["crlf"] += 1
            text = eol.join(lines) + (eol if rnd.random() < 0.8 else "")
            cases.append("mdl " + enc(text))
            cases.append("ini " + enc(text))
            if not layout:
                plain_text = text
                cases.append("totext " + enc(text))
                cases.append("tt " + enc(text))
                dist["totext"] += 1
            else:
                cases.append("mdl2 %s %s" % (enc(plain_text), enc(text)))
            dist["layouts"] += 1
    # multi-section model for to_text
    ms = ("[request_definition]\nr = sub, act, obj\nr2 = sub, act\n\n[policy_definition]\np = sub, act, obj\np2 = sub, act, eft\n\n"
          "[role_definition]\ng = _, _\ng2 = _,_\n\n[policy_effect]\ne = some(where (p.eft == allow))\ne2 = !some(where (p.eft == deny))\n\n"
          "[matchers]\nm = r.sub == p.sub && g(p.act, r.act) && r.obj == p.obj\nm2 = r2.sub == p2.sub && g2(p2.act, r2.act)\n")
    for k in ("mdl", "ini", "totext", "tt"):
        cases.append("%s %s" % (k, enc(ms)))
    # (d) totality: noise and mutated texts
    n_noise = 300 if tier == "quick" else 6000
    alphabet = list("[]=\\#; \t\n\r\"',.rpgem_()&|!:") + ["é", "日", "\x00", "\x7f", "request_definition", "matchers", "r = sub", "m = ", "[", "]"]
    base = "[request_definition]\nr = sub, obj, act\n[policy_definition]\np = sub, obj, act\n[policy_effect]\ne = some(where (p.eft == allow))\n[matchers]\nm = r.sub == p.sub\n"
    for _ in range(n_noise):
        if rnd.random() < 0.5:
            t = "".join(rnd.choice(alphabet) for _ in range(rnd.randint(0, 30)))
        else:
            t = list(base)
            for _ in range(rnd.randint(1, 4)):
                i = rnd.randrange(len(t))
                r = rnd.random()
                if r < 0.4:
                    del t[i]
                elif r < 0.8:
                    t.insert(i, rnd.choice(alphabet))
                else:
                    t[i] = rnd.choice(alphabet)
            t = "".join(t)
        cases.append("ini " + enc(t))
        cases.append("mdl " + enc(t))
        cases.append("csv " + enc(t.split("\n")[0]))
        dist["noise"] += 1
    # continuation corner cases: a dangling '\\' at the end of the text, before a blank line, before a section header,
    # before a comment; trailing blanks / tabs after the value and after the backslash
    pre = "[request_definition]\nr = sub, obj, act\n[policy_definition]\np = sub, obj, act\n[policy_effect]\ne = some(where (p.eft == allow))\n[matchers]\n"
    for tail in ["m = r.sub == p.sub \\", "m = r.sub == p.sub \\\n", "m = r.sub == p.sub \\ \n", "m = r.sub == p.sub &&\\\n\n r.obj == p.obj\n",
                 "m = r.sub == p.sub && \\\n[other]\nx = 1\n", "m = r.sub == p.sub && \\\n# c\n r.obj == p.obj\n", "m = r.sub == p.sub \t \n",
                 "m = r.sub == p.sub\\\\\n", "m = \\\n r.sub == p.sub\n", "m = r.sub == p.sub && \\\n r.obj == p.obj \\\n && r.act == p.act\n",
                 "m = r.sub == p.sub && \\\r\n r.obj == p.obj\r\n", "m = r.sub \\ == p.sub\n", "m \\\n = r.sub == p.sub\n"]:
        cases.append("ini " + enc(pre + tail))
        cases.append("mdl " + enc(pre + tail))
    # to_text on a model in which one token's text is part of another's (known finding D29)
    for body in ["[request_definition]\nr = a\n[policy_definition]\np = r_a\n[policy_effect]\ne = some(where (p.eft == allow))\n[matchers]\nm = r.a == p.r_a\n",
                 "[request_definition]\nr = sub, p_x\n[policy_definition]\np = x, sub\n[policy_effect]\ne = some(where (p.eft == allow))\n[matchers]\nm = r.sub == p.sub && r.p_x == p.x\n"]:
        cases.append("tt " + enc(body))
    # to_text on field names that CONTAIN a definition key followed by an underscore further inside (user_id, owner_id,
    # ip_addr, super_p_level): only the leading key of a token is a section prefix
    for body in ["[request_definition]\nr = user_id, obj, act\n[policy_definition]\np = user_id, ip_addr, act\n[policy_effect]\ne = some(where (p.eft == allow))\n"
                 "[matchers]\nm = r.user_id == p.user_id && r.obj == p.ip_addr && r.act == p.act\n",
                 "[request_definition]\nr = owner_id, act\nr2 = super_p_level, act\n[policy_definition]\np = owner_id, act\np2 = super_p_level, act, eft\n"
                 "[policy_effect]\ne = some(where (p.eft == allow))\ne2 = !some(where (p.eft == deny))\n"
                 "[matchers]\nm = r.owner_id == p.owner_id && r.act == p.act\nm2 = r2.super_p_level == p2.super_p_level && r2.act == p2.act\n"]:
        cases.append("tt " + enc(body))
        cases.append("totext " + enc(body))
    for t in ["r.sub == p.sub", "pr.x r.y p2.z r22.q.w", "xr.sub", "r. p.", "(r.a)", "\"r.sub\"", "é r.x", "r_sub.p.x", "eval(p.rule)"]:
        cases.append("esc " + enc(t))
    for t in ["a # b", "#", "a#", "  x  # y # z", "no comment  ", ""]:
        cases.append("rmc " + enc(t))
    return {
        "cases": cases,
        "exhaustive": False,
        "rule": ("[policy texts] whole policy files (rows interleaved with comment / blank lines, CRLF, spacing, quoting) loaded through StringAdapter and "
                 "FileAdapter, judged against the rows the Gallina file parser gives; [lines] policy lines over csv-safe values (commas, inner blanks, '#', multi-byte, ptype look-alikes) x blanks before/after every column "
                 "(also after a closing quote) x optional quoting; every model kind of the family x layouts (blank/comment lines, spacing around headers, "
                 "keys and '=', CRLF, continuation breaks after && / || with arbitrary indentation); to_text of every kind and of a multi-section model; "
                 "totality stream of noise and mutated model texts. non-trivial = parse succeeded with at least two columns / definitions"),
        "distribution": dist,
    }


def nontrivial(c, mo):
    return mo not in ("N", "E", "-", "PANIC") and ("," in mo or "+" in mo or mo.startswith("t."))
