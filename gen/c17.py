"""C17 cases: every model kind duplicated under suffix 2 / 3; the same rules
stored under the plain and the suffixed policy type; each request issued with
the context and plainly."""
import itertools
import random
from engine import *
from common import Raw
import c01


def generate(tier, seed):
    rnd = random.Random(seed)
    K = kinds(("AO", "DO", "AD", "PR"))
    cases = []
    per_kind = 30 if tier == "quick" else 600
    dist = {}
    for name, d in K.items():
        if d.get("eval"):
            continue  # eval() strings would have to be renamed as well: outside the property's copy relation
        for k in ("2", "3"):
            copies = ("", "2") if k == "2" else ("", "2", "3")
            sp = spec_of(d, copies)
            reqs = c01.requests_for(d, rnd)
            n = 0
            for rs, ls, ex in c01.configs_for(d, rnd, per_kind, 2, 2):
                # now and then a stored value carries leading / trailing blanks (legal through the management API and the
                # memory adapter; both loops must read the SAME stored text)
                if rs and n % 5 == 2:
                    rs = [list(r) for r in rs]
                    j = rnd.randrange(len(rs[0]))
                    rs[0][j] = rnd.choice([rs[0][j] + " ", " " + rs[0][j]])
                lines = [["p", "p"] + r for r in rs] + [["p", "p" + k] + r for r in rs] + [["g", gk] + l for gk, l in ls]
                steps = []
                for r in reqs:
                    steps.append(Q_ec(k, r))
                    steps.append(Q_e(r))
                steps += ["?gp:p:p", "?gp:p:p" + k]
                # now and then with enforcement switched off (both entry points then grant everything) and on again
                if n % 7 == 3:
                    steps = ["EE:0"] + steps[:8] + ["EE:1"] + steps
                cases.append(case("eng", sp, adapter_M(lines), "-", steps))
                n += 1
                # now and then a MALFORMED stored rule (a column too many / too few) at some position among the well-formed
                # ones, the same under both types: both entry points reach it - or stop before it - at the same rule
                if rs and n % 6 == 1:
                    bad = rnd.choice([rs[0] + ["extra"], rs[0][:-1], rs[0] + ["x", "y"]])
                    for pos in range(len(rs) + 1):
                        rs2 = [list(r) for r in rs]
                        rs2.insert(pos, bad)
                        lines2 = [["p", "p"] + r for r in rs2] + [["p", "p" + k] + r for r in rs2] + [["g", gk] + l for gk, l in ls]
                        steps2 = []
                        for r in reqs:
                            steps2.append(Q_ec(k, r))
                            steps2.append(Q_e(r))
                        cases.append(case("eng", sp, adapter_M(lines2), "-", steps2))
                        dist["malformed_rule"] = dist.get("malformed_rule", 0) + 1
            dist["%s/%s" % (name, k)] = n
    # the kinds whose matcher EVALUATES a stored rule text (eval(p.sub_rule)): the suffixed copy of such a policy stores the text
    # over the suffixed names (r2.sub.Age > 18 under p2 where p holds r.sub.Age > 18); both entry points rewrite the dotted
    # names of the evaluated text before evaluating it, so the copy relation extends to these rules
    def ren(v, k):
        if isinstance(v, Raw):
            return Raw(v.replace("(var,r,", "(var,r%s," % k).replace("(var,p,", "(var,p%s," % k))
        return v
    for name, d in K.items():
        if not d.get("eval"):
            continue
        for k in ("2", "3"):
            copies = ("", "2") if k == "2" else ("", "2", "3")
            sp = spec_of(d, copies)
            reqs = c01.requests_for(d, rnd)
            n = 0
            for rs, ls, ex in c01.configs_for(d, rnd, per_kind, 2, 2):
                lines = [["p", "p"] + r for r in rs] + [["p", "p" + k] + [ren(x, k) for x in r] for r in rs] + [["g", gk] + l for gk, l in ls]
                steps = []
                for r in reqs:
                    steps.append(Q_ec(k, r))
                    steps.append(Q_e(r))
                cases.append(case("eng", sp, adapter_M(lines), "-", steps))
                n += 1
            dist["%s/%s" % (name, k)] = n
    # a policy definition with a SECOND column whose name ends in "_eft" (parent_eft) before the effect column: the effect of a
    # matched rule is the value of the column named exactly eft, under the plain and under the suffixed type alike
    dist["second_eft_like_column"] = 0
    for ek in ("DO", "AD", "PR", "AO"):
        for pf in (["sub", "obj", "act", "parent_eft", "eft"], ["sub", "obj", "act", "eft", "parent_eft"], ["sub", "parent_eft", "obj", "act", "eft"]):
            d = {"r": SOA, "p": pf, "e": ek, "m": (lambda k: eq3(k)), "g": {}}
            for k in ("2", "3"):
                copies = ("", "2") if k == "2" else ("", "2", "3")
                sp = spec_of(d, copies)
                for _ in range(4 if tier == "quick" else 60):
                    rs = []
                    for _ in range(rnd.randint(1, 3)):
                        v = {"sub": rnd.choice(["alice", "bob"]), "obj": "data1", "act": "read",
                             "parent_eft": rnd.choice(["allow", "deny", "x"]), "eft": rnd.choice(["allow", "deny", "x"])}
                        r = [v[f] for f in pf]
                        if r not in rs:
                            rs.append(r)
                    lines = [["p", "p"] + r for r in rs] + [["p", "p" + k] + r for r in rs]
                    steps = []
                    for r in ([u, "data1", "read"] for u in ("alice", "bob", "carol")):
                        steps.append(Q_ec(k, r))
                        steps.append(Q_e(r))
                    cases.append(case("eng", sp, adapter_M(lines), "-", steps))
                    dist["second_eft_like_column"] += 1
    return {
        "cases": cases,
        "exhaustive": False,
        "rule": ("every model kind of the C01 family (all four effect rules; the eval kinds with the evaluated rule text renamed to the suffixed names) with its r/p/e/m definitions copied under suffix 2 (and 3), "
                 "policies of <= 2 rules (incl. allow/deny/other effect values) stored under both the plain and the suffixed policy type, <= 2 role links; "
                 "every request of the cross product + wrong arities + typed values issued through enforce_with_context(k) and enforce. "
                 "non-trivial = both a grant and a denial occur"),
        "distribution": dist,
    }


def nontrivial(c, mo):
    return c01.nontrivial(c, mo)
