"""C15 cases: the exported matcher functions against the segment-wise
specification. Patterns are given as segment lists (@L.a,N.id,S) and rendered
by the Gallina printers (render2 / render3); keys are text."""
import itertools
import random
from common import enc

LITS = ["a", "b"]
NAMES = ["x", "y"]
KEYSEGS = ["a", "b", "ab", "é", ""]


def pat_tok(p):
    return "@" + ",".join("S" if s == "*" else ("N." + s[1:] if s.startswith(":") else "L." + s) for s in p)


def patterns(maxlen):
    alpha = LITS + [":" + n for n in NAMES] + ["*"]
    for k in range(1, maxlen + 1):
        for p in itertools.product(alpha, repeat=k):
            if "*" in p[:-1]:
                continue  # '*' only as the last segment (documented grammar)
            yield list(p)


def keys(maxlen):
    yield ""
    for k in range(1, maxlen + 1):
        for ks in itertools.product(KEYSEGS, repeat=k):
            yield "/" + "/".join(ks)


def generate(tier, seed):
    rnd = random.Random(seed)
    pl, kl = (2, 3) if tier == "quick" else (3, 4)
    pats = list(patterns(pl))
    ks = list(keys(kl))
    cases = []
    dist = {"patterns": len(pats), "keys": len(ks)}
    extra_keys = ["a", "/a\n", "/a/b\n", "/a?q=1", "/a/b?x/y", "/a/?", "?/a", "/a//b", "//", "/A", "/ab/", "/😀/a",
                  "/é?q", "/é/b?x=1", "/é/bc?x=1", "/日本/b?x", "/a/é?b", "/é/a?é", "/€a/b?q=/a/b", "/ab/é/?", "/é/é?"]
    for p in pats:
        pt = pat_tok(p)
        names = [s[1:] for s in p if s.startswith(":")] or ["x"]
        for k in ks + extra_keys:
            ke = enc(k)
            for fn in ("km2", "km3", "km4", "km5"):
                cases.append("pm %s %s %s" % (fn, ke, pt))
            v = names[0] if len(names) == 1 else rnd.choice(names)
            cases.append("pm kg2 %s %s %s" % (ke, pt, enc(v)))
            cases.append("pm kg3 %s %s %s" % (ke, pt, enc(v)))
    # the SAME pattern text through two functions of one process: ':name' is a placeholder for keyMatch2 and plain text for
    # keyMatch3 / keyMatch5, so "/a/:x" must keep its two meanings whichever function saw the text first (the literal reading is
    # asked first; each function is a pure function of its two arguments, whatever it may remember between calls)
    dist["same_text_two_functions"] = 0
    for p in pats:
        if not any(s.startswith(":") for s in p):
            continue
        lit = "@" + ",".join("S" if s == "*" else "L." + enc(s) for s in p)
        for k in ks[:40] + ["/" + "/".join("v" if s.startswith(":") else s for s in p if s != "*")]:
            ke = enc(k)
            cases.append("pm km3 %s %s" % (ke, lit))
            cases.append("pm km2 %s %s" % (ke, pat_tok(p)))
            cases.append("pm km5 %s %s" % (ke, lit))
            dist["same_text_two_functions"] += 1
    # key_match / key_get: text patterns with '*' anywhere
    kmp = ["/a/*", "/a*", "*", "/a", "", "/a/b*", "/é*", "/*/a", "a*b*", "/ab/*"]
    kmk = ["", "/", "/a", "/a/", "/a/b", "/ab", "/ab/c", "/é", "/éa", "/é/b", "a", "ab", "/b", "/😀", "/a\nb",
           "/a/a", "/a/a/b", "/a/a/a", "/ab/ab/c", "aa", "/é/é"]      # the pattern's literal prefix REPEATED in the key
    for p in kmp:
        for k in kmk:
            cases.append("pm km %s %s" % (enc(k), enc(p)))
            cases.append("pm kg %s %s" % (enc(k), enc(p)))
    # regex_match on the documented word alternatives
    # ("^GET|POST$" and its one-sided forms anchor only the neighbouring alternative: outside the model's word class since the
    #  proof of part 16 showed the model misread them; kept as totality probes, the model answers "U" = no claim)
    for p in ["GET", "^GET$", "(GET)|(POST)", "^(GET|POST)$", "GET|POST", "^GET", "POST$", "^GET|POST$", "^GET|POST", "GET|POST$"]:
        for k in ["GET", "POST", "PUT", "GETS", "AGET", "", "GETPOST", "get", "GETx", "xPOST"]:
            cases.append("pm rm %s %s" % (enc(k), enc(p)))
    # seeded random longer patterns / keys
    n_rand = 2000 if tier == "quick" else 40000
    for _ in range(n_rand):
        n = rnd.randint(1, 5)
        p = [rnd.choice(LITS + ["ab", "a-b", "A_1"] + [":" + x for x in NAMES + ["id", "x", "user-id", "1st", "a_b", "x"]]) for _ in range(n)]
        if rnd.random() < 0.3:
            p.append("*")
        # a key derived from the pattern (mostly matching) with mutations
        ksegs = []
        for s in p:
            if s == "*":
                ksegs += [rnd.choice(KEYSEGS + ["zz"]) for _ in range(rnd.randint(0, 3))]
            elif s.startswith(":"):
                ksegs.append(rnd.choice(["v1", "é", "a", "", "x y"]))
            else:
                ksegs.append(s if rnd.random() < 0.85 else rnd.choice(LITS + ["ab"]))
        if rnd.random() < 0.15 and ksegs:
            ksegs.pop()
        if rnd.random() < 0.1:
            ksegs.append("t")
        k = "/" + "/".join(ksegs)
        if rnd.random() < 0.1:
            k += "?q=" + rnd.choice(["1", "a/b"])
        fn = rnd.choice(["km2", "km3", "km4", "km5", "kg2", "kg3"])
        if fn in ("kg2", "kg3"):
            names = [s[1:] for s in p if s.startswith(":")] or ["x"]
            cases.append("pm %s %s %s %s" % (fn, enc(k), pat_tok(p), enc(rnd.choice(names))))
        else:
            cases.append("pm %s %s %s" % (fn, enc(k), pat_tok(p)))
    return {
        "cases": cases,
        "exhaustive": False,
        "rule": ("every grammar pattern of <= %d segments over literals {a,b}, names {x,y} and a final '*' x every key of <= %d segments over "
                 "{a,b,ab,é,''} plus keys with query strings, line feeds, missing leading slash, for key_match2/3/4/5 and key_get2/3; "
                 "key_match/key_get on text patterns with '*' anywhere incl. multi-byte keys; regex_match on word alternatives; "
                 "%d seeded random longer patterns (names with '-', '_', a leading digit, repeated names) with mostly-matching keys. non-trivial = the function returns a match / a non-empty binding"
                 % (pl, kl, n_rand)),
        "distribution": dist,
    }


def nontrivial(c, mo):
    return mo == "1" or (mo.startswith("t.") and mo != "t.~")
