"""C19 cases: two-role-definition models (user roles g + resource roles g2, with
and without domains) over ONE shared name universe, so names coincide across
definitions; add/remove histories; all requests."""
import itertools
import random
from hist import *

U = ["x", "y", "z"]


def spec19(dom):
    if dom:
        m = And(Call("g", V("r", "sub"), V("p", "sub"), V("r", "dom")), Call("g2", V("r", "obj"), V("p", "obj"), V("r", "dom")),
                Eq(V("r", "dom"), V("p", "dom")), Eq(V("r", "act"), V("p", "act")))
        return "r=sub,dom,obj,act;p=sub,dom,obj,act;g=3;g2=3;e=AO;m={%s}" % m
    m = And(Call("g", V("r", "sub"), V("p", "sub")), Call("g2", V("r", "obj"), V("p", "obj")), Eq(V("r", "act"), V("p", "act")))
    return "r=sub,obj,act;p=sub,obj,act;g=2;g2=2;e=AO;m={%s}" % m


def generate(tier, seed):
    rnd = random.Random(seed)
    cases = []
    dist = {"exhaustive": 0, "random": 0}
    for dom in (False, True):
        sp = spec19(dom)
        dd = ["d1"] if dom else []
        pairs = [(a, b) for a in U for b in U if a != b]
        al = []
        for a, b in pairs:
            for gk in ("g", "g2"):
                al.append(A("g", gk, [a, b] + dd))
                al.append(R("g", gk, [a, b] + dd))
        al.append("BR")
        # filtered removals that take out SEVERAL rules of one definition at once (and RBAC helpers built on them)
        for gk in ("g", "g2"):
            al += [RF("g", gk, 0, []), RF("g", gk, 1, ["y"]), RF("g", gk, 0, ["x"])]
        al += ["drs:x:%s" % (dd[0] if dd else "-")]    # (helpers that also remove p rules are left to C13: the hand predicate reads the p rules off the adapter spec)
        reqs = [[s] + dd + [o, "read"] for s in U for o in U]
        block = [Q_e(r) for r in reqs] + ["?ga:g"]
        prules = [["x"] + dd + ["y", "read"], ["z"] + dd + ["z", "read"]]
        lines = [["p", "p"] + r for r in prules]
        # a second start state with several links under each definition (disjoint direction so that per-definition and union differ little)
        lines_b = lines + [["g", "g", "x", "y"] + dd, ["g", "g", "x", "z"] + dd, ["g", "g2", "z", "y"] + dd, ["g", "g2", "x", "y"] + dd]
        for o in al:
            cases.append(case("eng", sp, adapter_M(lines_b), "-", [o] + block))
            dist["exhaustive"] += 1
        L = 2 if tier == "quick" else 3
        al_ex = al if (tier != "quick" or not dom) else al[::3]
        for k in range(1, L + 1):
            for h in itertools.product(al_ex, repeat=k):
                steps = []
                for o in h:
                    steps += [o] + block
                cases.append(case("eng", sp, adapter_M(lines), "-", steps))
                dist["exhaustive"] += 1
                if tier == "quick" and dist["exhaustive"] > 2500 and k == 2:
                    break
        for _ in range(60 if tier == "quick" else 1500):
            n = rnd.choice([4, 8, 20])
            steps = []
            for _ in range(n):
                steps += [rnd.choice(al)] + block
            cases.append(case("eng", sp, adapter_M(lines), "-", steps))
            dist["random"] += 1
    # role definitions of DIFFERENT arity (g = _, _ ; g2 = _, _, _): the same pair of names is linked under g in the
    # default domain and under g2 in domain d1, so the per-domain graphs never overlap (outside the known shared-manager class)
    m = And(Call("g", V("r", "sub"), V("p", "sub")), Call("g2", V("r", "obj"), V("p", "obj"), V("r", "dom")), Eq(V("r", "act"), V("p", "act")))
    sp = "r=sub,dom,obj,act;p=sub,obj,act;g=2;g2=3;e=AO;m={%s}" % m
    pairs = [(a, b) for a in U for b in U if a != b]
    al = []
    for a, b in pairs:
        al += [A("g", "g", [a, b]), R("g", "g", [a, b]), A("g", "g2", [a, b, "d1"]), R("g", "g2", [a, b, "d1"])]
    al += [RM("g", "g2", [["x", "y", "d1"], ["y", "z", "d1"]]), RF("g", "g2", 0, ["x"]), RF("g", "g", 0, ["x"]), "BR"]
    reqs = [[s, "d1", o, "read"] for s in U for o in U]
    block = [Q_e(r) for r in reqs] + ["?ga:g"]
    lines = [["p", "p", "y", "y", "read"], ["p", "p", "z", "x", "read"], ["g", "g", "x", "y"], ["g", "g2", "x", "y", "d1"], ["g", "g2", "y", "z", "d1"]]
    dist["mixed_arity"] = 0
    for k in (1, 2):
        hs = list(itertools.product(al, repeat=k))
        if k == 2 and tier == "quick":
            hs = rnd.sample(hs, 300)
        for h in hs:
            steps = []
            for o in h:
                steps += [o] + block
            cases.append(case("eng", sp, adapter_M(lines), "-", steps))
            dist["mixed_arity"] += 1
    # the arities the other way round (g ternary, g2 binary) and a request whose domain is the EMPTY string: the empty domain
    # is a domain of its own - a g test in it must not be answered from the default graph, where the binary g2 keeps its links
    m3 = And(Call("g", V("r", "sub"), V("p", "sub"), V("r", "dom")), Call("g2", V("r", "obj"), V("p", "obj")), Eq(V("r", "act"), V("p", "act")))
    sp3 = "r=sub,dom,obj,act;p=sub,obj,act;g=3;g2=2;e=AO;m={%s}" % m3
    dist["empty_domain_request"] = 0
    lines3 = [["p", "p", "y", "y", "read"], ["p", "p", "z", "x", "read"], ["g", "g", "x", "y", "d1"], ["g", "g2", "x", "y"], ["g", "g2", "y", "z"], ["g", "g2", "x", "z"]]
    reqs3 = [[s_, dm, o, "read"] for s_ in U for o in U for dm in ("", "d1")]
    block3 = [Q_e(r) for r in reqs3] + ["?ga:g"]
    for o in [A("g", "g2", ["z", "y"]), R("g", "g2", ["x", "y"]), A("g", "g", ["y", "z", "d1"]), A("g", "g", ["y", "z", ""]), "BR", "LD"]:
        cases.append(case("eng", sp3, adapter_M(lines3), "-", block3 + [o] + block3))
        dist["empty_domain_request"] += 1
    # over-long g rules: a rule under the binary g may carry extra "custom data" columns; when that column happens to be a
    # domain used under the ternary g2, a rebuild of the links (load_policy, build_role_links) must still file the g link in
    # the DEFAULT domain - it must never surface as a g2 membership in that domain
    dist["overlong_g_rule"] = 0
    lines2 = lines + [["g", "g", "z", "x", "d1"]]
    extra = [A("g", "g", ["y", "x", "d1"]), A("g", "g", ["z", "y", "d1"]), R("g", "g", ["z", "x", "d1"]), "BR", "LD",
             RF("g", "g2", 0, ["x"]), A("g", "g2", ["z", "x", "d1"]), R("g", "g2", ["x", "y", "d1"])]
    for k in (1, 2, 3):
        hs = list(itertools.product(extra, repeat=k))
        if k == 3:
            hs = rnd.sample(hs, 60 if tier == "quick" else 400)
        for h in hs:
            steps = list(block)
            for o in h:
                steps += [o] + block
            cases.append(case("eng", sp, adapter_M(lines2), "-", steps))
            dist["overlong_g_rule"] += 1
    return {
        "cases": cases,
        "exhaustive": False,
        "rule": ("user-role + resource-role models (with and without a domain argument) whose matcher calls g on subjects and g2 on objects, both definitions "
                 "drawing links from the SAME three names; every history of <= 2 (thorough: 3) additions/removals under g and g2 (and explicit rebuilds), seeded "
                 "random ones up to length 20; a model whose two definitions have different arities (g binary in the default domain, g2 ternary in d1) "
                 "with single, batch and filtered removals under each; after every call all 9 requests and the stored grouping rules. non-trivial = links exist under both definitions"),
        "distribution": dist,
    }


def nontrivial(c, mo):
    return "g,g," in mo and "g,g2," in mo
