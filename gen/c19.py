"""C19 cases: two-role-definition models (user roles g + resource roles g2, with
and without domains) over ONE shared name universe, so names coincide across
definitions; add/remove histories; all requests."""
import itertools
import random
from hist import *

U = ["x", "y", "z"]


def spec19(dom):
    if dom:
        m = And(Call("g", V("r", "sub"), V("p", "sub"), V("r", "dom")), Call("g2", V("r", "obj"), V("p", "obj"), V("r", "dom")),
                Eq(V("r", "dom"), V("p", "dom")), Eq(V("r", "act"), V("p", "act")))
        return "r=sub,dom,obj,act;p=sub,dom,obj,act;g=3;g2=3;e=AO;m={%s}" % m
    m = And(Call("g", V("r", "sub"), V("p", "sub")), Call("g2", V("r", "obj"), V("p", "obj")), Eq(V("r", "act"), V("p", "act")))
    return "r=sub,obj,act;p=sub,obj,act;g=2;g2=2;e=AO;m={%s}" % m


def generate(tier, seed):
    rnd = random.Random(seed)
    cases = []
    dist = {"exhaustive": 0, "random": 0}
    for dom in (False, True):
        sp = spec19(dom)
        dd = ["d1"] if dom else []
        pairs = [(a, b) for a in U for b in U if a != b]
        al = []
        for a, b in pairs:
            for gk in ("g", "g2"):
                al.append(A("g", gk, [a, b] + dd))
                al.append(R("g", gk, [a, b] + dd))
        al.append("BR")
        reqs = [[s] + dd + [o, "read"] for s in U for o in U]
        block = [Q_e(r) for r in reqs] + ["?ga:g"]
        prules = [["x"] + dd + ["y", "read"], ["z"] + dd + ["z", "read"]]
        lines = [["p", "p"] + r for r in prules]
        L = 2 if tier == "quick" else 3
        al_ex = al if (tier != "quick" or not dom) else al[::3]
        for k in range(1, L + 1):
            for h in itertools.product(al_ex, repeat=k):
                steps = []
                for o in h:
                    steps += [o] + block
                cases.append(case("eng", sp, adapter_M(lines), "-", steps))
                dist["exhaustive"] += 1
                if tier == "quick" and dist["exhaustive"] > 2500 and k == 2:
                    break
        for _ in range(60 if tier == "quick" else 1500):
            n = rnd.choice([4, 8, 20])
            steps = []
            for _ in range(n):
                steps += [rnd.choice(al)] + block
            cases.append(case("eng", sp, adapter_M(lines), "-", steps))
            dist["random"] += 1
    return {
        "cases": cases,
        "exhaustive": False,
        "rule": ("user-role + resource-role models (with and without a domain argument) whose matcher calls g on subjects and g2 on objects, both definitions "
                 "drawing links from the SAME three names; every history of <= 2 (thorough: 3) additions/removals under g and g2 (and explicit rebuilds), seeded "
                 "random ones up to length 20; after every call all 9 requests and the stored grouping rules. non-trivial = links exist under both definitions"),
        "distribution": dist,
    }


def nontrivial(c, mo):
    return "g,g," in mo and "g,g2," in mo
