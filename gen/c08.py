"""C08 cases: negation-free models; one addition / removal of a rule or a link;
all requests of the cross product before and after."""
import itertools
import random
from hist import *


def generate(tier, seed):
    rnd = random.Random(seed)
    cases = []
    dist = {"configs": 0}
    K = kinds(("AO", "DO", "AD"))
    names = ["acl", "rbac", "rbac_res", "rbac_dom", "keymatch", "in_op", "rbac_DO", "rbac_AD", "rbac_dom_DO", "acl_AD", "acl_DO", "acl_AOe", "rbac_AOe"]
    for name in names:
        d = K[name]
        sp = spec_of(d)
        dom = bool(d.get("dom"))
        eft = "eft" in d["p"]
        subs = SUBS + ["admin"]
        objs = ["/data/*", "/data/1"] if d.get("paths") else OBJS

        def prule(e=None):
            r = [rnd.choice(subs)] + (["d1"] if dom else []) + [rnd.choice(objs), "read"]
            if eft:
                r.append(e or rnd.choice(["allow", "deny"]))
            return r

        reqs = []
        for s in subs + ["zed"]:
            for o in (["/data/1", "/data/2", "/x"] if d.get("paths") else OBJS):
                reqs.append([s] + (["d1"] if dom else []) + [o, "read"])
        block = [Q_e(r) for r in reqs]
        n = 60 if tier == "quick" else 1200
        for _ in range(n):
            lines = []
            for _ in range(rnd.randint(0, 4)):
                lines.append(["p", "p"] + prule())
            for gk, ar in d["g"].items():
                pool = subs if gk == "g" else objs + ["res"]
                for _ in range(rnd.randint(0, 3)):
                    lines.append(["g", gk, rnd.choice(pool), rnd.choice(pool)] + (["d1"] if ar == 3 else []))
            uniq = []
            for l in lines:
                if l not in uniq:
                    uniq.append(l)
            ops = []
            for _ in range(4):
                r = prule("deny" if (eft and rnd.random() < 0.7) else None)
                ops.append(A("p", "p", r))
            for l in uniq:
                if l[0] == "p":
                    ops.append(R("p", "p", l[2:]))
                else:
                    ops.append(R("g", l[1], l[2:]))
            for gk, ar in d["g"].items():
                pool = subs if gk == "g" else objs + ["res"]
                for _ in range(2):
                    ops.append(A("g", gk, [rnd.choice(pool), rnd.choice(pool)] + (["d1"] if ar == 3 else [])))
            for o in ops:
                cases.append(case("eng", sp, adapter_M(uniq), "-", block + [o] + block))
                dist["configs"] += 1
            # a link that is in the role graph but no longer in the store (its rule was removed while automatic link building
            # was off): a BATCH addition of other links afterwards must not take it away (granting never revokes)
            glines = [l for l in uniq if l[0] == "g" and l[1] == "g"]
            if glines and not eft and len(cases) % 4 == 0:
                gl = glines[0]
                pool = subs
                batch = [[rnd.choice(pool), rnd.choice(pool)] + (["d1"] if d["g"]["g"] == 3 else []) for _ in range(2)]
                pre = ["EB:0", R("g", "g", gl[2:]), "EB:1"]
                cases.append(case("eng", sp, adapter_M(uniq), "-", pre + block + [AM("g", "g", batch)] + block))
                dist["stale_link_then_batch"] = dist.get("stale_link_then_batch", 0) + 1
    return {
        "cases": cases,
        "exhaustive": False,
        "rule": ("negation-free members of the family (ACL, RBAC, resource roles, domains, keyMatch, `in`; allow-override, deny-override, allow-and-deny), random "
                 "small configurations with hierarchies far below the depth limit x every single removal of a stored rule/link and random single additions "
                 "(deny rules preferred under deny-override / allow-and-deny) x the full request cross product before and after. "
                 "non-trivial = the call changed at least one decision"),
        "distribution": dist,
    }


def nontrivial(c, mo):
    if "r=" not in mo:
        return False
    o = mo.split("r=")[1].split("|")
    n = (len(o) - 1) // 2
    return o[:n] != o[n + 1:]
