"""C09 cases: (a) management histories with auto-save on over MemoryAdapter, the
adapter reloaded into a scratch model after every call; (b) save / load round
trips over the three bundled adapters with csv-safe values."""
import itertools
import random
from hist import *
import c04

SAFE = ["alice", "data one", "x,y", "a, b", "é", "日本", "p", "g2", "a#b", "/p/*", "k=v", "r.sub", "-", "1",
        "x, ", " ,y "]   # comma + edge blanks: written in quotes, kept verbatim


def generate(tier, seed):
    rnd = random.Random(seed)
    cases = []
    dist = {"sync_histories": 0, "roundtrips": 0, "adapters": {}}
    for dom in (False, True):
        d = prio_dom_kind() if dom else prio_kind()
        sp = spec_of(d)
        al = mgmt_alphabet(dom) + ["SV", "LD"]
        al_ex = al if not dom else al[::3]
        for k in range(1, 3):
            for h in itertools.product(al_ex, repeat=k):
                steps = []
                for o in h:
                    steps += [o, "?ga:p", "?ga:g", "?rv"] + observe_steps(dom)[2:]
                cases.append(case("eng", sp, adapter_M(initial_lines(random.Random(len(cases)), dom, True)), "-", steps))
                dist["sync_histories"] += 1
        for _ in range(40 if tier == "quick" else 5000):
            n = rnd.choice([5, 20, 60])
            steps = []
            for _ in range(n):
                steps += [pick_op(rnd, al, dom), "?ga:p", "?ga:g", "?rv"]
            script = "".join(rnd.choice("pppppprf") for _ in range(rnd.randint(0, 10)))
            ad = adapter_M(initial_lines(rnd, dom, True))
            if rnd.random() < 0.4:
                ad = adapter_X(ad, script)
            cases.append(case("eng", sp, ad, "-", steps))
            dist["sync_histories"] += 1
    # a call naming a policy type of the OTHER section (add_named_policy("g", ..), add_named_grouping_policy("p", ..)): the model
    # rejects it; whatever the adapter made of the call, a reload must not turn it into a rule of that other section
    dist["cross_section_types"] = 0
    for dom in (False, True):
        d = prio_dom_kind() if dom else prio_kind()
        sp = spec_of(d)
        pr, gr = p_rules(dom), g_rules(dom)
        cross = [A("p", "g", gr[2]), A("g", "p", pr[3]), AM("p", "g", [gr[2], gr[3]]), R("p", "g", gr[0]), R("g", "p", pr[0]),
                 RF("p", "g", 0, [gr[0][0]]), A("p", "g", pr[3])]
        tail = ["?ga:p", "?ga:g", "?rv"] + observe_steps(dom)[2:]
        for o in cross:
            for o2 in [None, "LD", A("g", "g", gr[3]), "SV"]:
                steps = list(tail) + [o] + tail + ([o2] + tail if o2 else [])
                cases.append(case("eng", sp, adapter_M(initial_lines(random.Random(len(cases)), dom, True)), "-", steps))
                dist["cross_section_types"] += 1
    # two policy types per section sharing names (a filtered removal on one type must not touch the sibling's lines)
    sp = multi_spec()
    al = multi_alphabet()
    for k in (1, 2):
        hs = list(itertools.product(al, repeat=k))
        if k == 2 and tier == "quick":
            hs = rnd.sample(hs, 500)
        for h in hs:
            steps = []
            for o in h:
                steps += [o, "?ga:p", "?ga:g", "?rv"]
            cases.append(case("eng", sp, adapter_M(multi_lines()), "-", steps))
            dist["sync_histories"] += 1
    # round trips
    K = kinds(("AO",))
    d = K["rbac_res"]
    sp = spec_of(d)
    for _ in range(150 if tier == "quick" else 20000):
        rules = []
        for _ in range(rnd.randint(0, 5)):
            rules.append([rnd.choice(SAFE), rnd.choice(SAFE), rnd.choice(SAFE)])
        g = [[rnd.choice(SAFE), rnd.choice(SAFE)] for _ in range(rnd.randint(0, 3))]
        g2 = [[rnd.choice(SAFE), rnd.choice(SAFE)] for _ in range(rnd.randint(0, 2))]
        ak = rnd.choice("MFS")
        dist["adapters"][ak] = dist["adapters"].get(ak, 0) + 1
        ad = {"M": adapter_M(), "F": adapter_F(), "S": adapter_S()}[ak]
        steps = ["ES:0"]
        for r in rules:
            steps.append(A("p", "p", r))
        for r in g:
            steps.append(A("g", "g", r))
        for r in g2:
            steps.append(A("g", "g2", r))
        req = [rules[0][0], rules[0][1], rules[0][2]] if rules else ["a", "b", "c"]
        steps += ["?ga:p", "?ga:g", Q_e(req), "SV", "LD", "?ga:p", "?ga:g", Q_e(req), "?rv"]
        # a SECOND save over a store that already holds lines, after rules were removed with auto-save off: the save must
        # replace what the adapter held, not add to it (a stale line would come back on the reload)
        if rnd.random() < 0.5 and (rules or g):
            for r in rules:
                if rnd.random() < 0.5:
                    steps.append(R("p", "p", r))
            for r in g:
                if rnd.random() < 0.5:
                    steps.append(R("g", "g", r))
            if rnd.random() < 0.5:
                steps.append(A("p", "p", [rnd.choice(SAFE), rnd.choice(SAFE), rnd.choice(SAFE)]))
            steps += ["SV", "?rv", "LD", "?ga:p", "?ga:g", Q_e(req), "?rv"]
            dist["resave_after_removal"] = dist.get("resave_after_removal", 0) + 1
        cases.append(case("eng", sp, ad, "-", steps))
        dist["roundtrips"] += 1
    # clear_policy with auto-save ON empties the store of every adapter that persists (file: the policy file itself): a reload
    # afterwards finds nothing
    dist["clear_then_reload"] = 0
    for ak in "FM":
        for _ in range(6 if tier == "quick" else 60):
            lines = initial_lines(rnd, False, ak == "M", maxp=4)
            ad = adapter_M(lines) if ak == "M" else adapter_F(lines)
            steps = ["?ga:p", "?ga:g", "CL", "?ga:p", "?ga:g", "?rv", "LD", "?ga:p", "?ga:g", "?rv"]
            cases.append(case("eng", spec_of(prio_kind()), ad, "-", steps))
            dist["clear_then_reload"] += 1
    return {
        "cases": cases,
        "exhaustive": False,
        "rule": ("(a) the C04 alphabet + save_policy/load_policy with auto-save on over MemoryAdapter (also wrapped by a scripted adapter that refuses / fails "
                 "some calls): every history of <= 2 calls and seeded random ones up to length 60; after EVERY call get_all_policy, get_all_grouping_policy and "
                 "a load of the adapter into a scratch model; (b) policies over csv-safe values (commas, inner blanks, '#' inside, multi-byte, ptype look-alikes) "
                 "saved and reloaded through Memory/File/String adapters. non-trivial = the stored policy is non-empty at some point"),
        "distribution": dist,
    }


def nontrivial(c, mo):
    return "p,p," in mo
