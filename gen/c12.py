"""C12 cases: stored policies over small universes x all filters (empty /
matching / non-matching value per leading field, for p and g) x File / Memory /
String adapters; full load, filtered load, flag, attempted save, reload."""
import itertools
import random
from hist import *


def generate(tier, seed):
    rnd = random.Random(seed)
    cases = []
    dist = {"adapters": {}, "configs": 0}
    sp = "r=sub,obj,act;p=sub,obj,act;p2=sub,act;g=2;g2=3;e=AO;m={%s}" % eq3()
    P = [["alice", "data1", "read"], ["alice", "data2", "read"], ["bob", "data1", "read"], ["bob", "data2", "write"]]
    P2 = [["alice", "read"], ["bob", "write"]]
    G = [["alice", "admin"], ["bob", "admin"], ["bob", "user"]]
    G2 = [["alice", "admin", "d1"], ["bob", "admin", "d2"]]
    vals_p = [["", "alice", "zed"], ["", "data1", "zed"], ["", "read"]]
    vals_g = [["", "alice", "zed"], ["", "admin", "zed"], ["", "d1"]]
    filters_p = [[]] + [list(f) for k in (1, 2, 3) for f in itertools.product(*vals_p[:k])]
    filters_g = [[]] + [list(f) for k in (1, 2, 3) for f in itertools.product(*vals_g[:k])]
    stores = []
    for np_, ng in [(4, 3), (2, 1), (0, 0), (1, 3)]:
        stores.append((P[:np_], P2[:min(np_, 2)], G[:ng], G2[:min(ng, 2)]))
    combos = list(itertools.product(filters_p, filters_g))
    if tier == "quick":
        combos = rnd.sample(combos, 250)
    for st in stores:
        p, p2, g, g2 = st
        for ak in "FMS":
            for fp, fg in combos:
                if ak == "M":
                    lines = [["p", "p"] + r for r in p] + [["p", "p2"] + r for r in p2] + [["g", "g"] + r for r in g] + [["g", "g2"] + r for r in g2]
                    ad = adapter_M(lines)
                else:
                    # interleave the types in the file
                    lines = []
                    for i in range(max(len(p), len(p2), len(g), len(g2))):
                        for key, l in (("p", p), ("g", g), ("p2", p2), ("g2", g2)):
                            if i < len(l):
                                lines.append([key] + l[i])
                    ad = adapter_F(lines) if ak == "F" else adapter_S(lines)
                steps = ["?ga:p", "?ga:g", "?if", "LF:%s:%s" % (enc_rule(fp), enc_rule(fg)), "?ga:p", "?ga:g", "?if", "SV", "?rv"]
                cases.append(case("eng", sp, ad, "-", steps))
                dist["adapters"][ak] = dist["adapters"].get(ak, 0) + 1
                dist["configs"] += 1
    # policy TEXTS with comment lines, blank lines, CRLF, blanks around columns and quoting, through the String and File
    # adapters' own line loops: full and filtered loads see exactly the rules of the text
    dist["raw_text"] = 0
    for st in stores[:2]:
        p, p2, g, g2 = st
        lines = []
        for i in range(max(len(p), len(p2), len(g), len(g2))):
            for key, l in (("p", p), ("g", g), ("p2", p2), ("g2", g2)):
                if i < len(l):
                    lines.append([key] + l[i])
        for fp, fg in rnd.sample(combos, 40 if tier == "quick" else min(len(combos), 1500)):
            text = policy_text(rnd, lines)
            ad = adapter_T(text) if rnd.random() < 0.5 else adapter_Ft(text)
            steps = ["?ga:p", "?ga:g", "?if", "LF:%s:%s" % (enc_rule(fp), enc_rule(fg)), "?ga:p", "?ga:g", "?if", "LD", "?ga:p", "?ga:g", "?if"]
            cases.append(case("eng", sp, ad, "-", steps))
            dist["raw_text"] += 1
    # a reload that FAILS (policy file unavailable) must not unmark a filtered enforcer nor change its policy,
    # and save_policy must still be refused afterwards
    dist["failed_reload"] = 0
    p_, p2_, g_, g2_ = stores[0]
    lines = []
    for i in range(4):
        for key, l in (("p", p_), ("g", g_), ("p2", p2_), ("g2", g2_)):
            if i < len(l):
                lines.append([key] + l[i])
    for fp, fg in [(["alice"], []), (["zed"], ["zed"]), ([], ["alice"]), ([], [])]:
        for reload in ("LD", "LF:%s:%s" % (enc_rule(["bob"]), enc_rule([]))):
            steps = ["LF:%s:%s" % (enc_rule(fp), enc_rule(fg)), "?ga:p", "?ga:g", "?if", "FX", reload, "?ga:p", "?ga:g", "?if", "FO", "SV", "?rv"]
            cases.append(case("eng", sp, adapter_F(lines), "-", steps))
            dist["failed_reload"] += 1
    # constructor with a pre-filtered file adapter skips the initial load
    lines = [["p"] + r for r in P]
    cases.append(case("eng", sp, adapter_F(lines, True), "-", ["?ga:p", "?if", "SV", "?rv"]))
    return {
        "cases": cases,
        "exhaustive": tier != "quick",
        "rule": ("a model with p (3 columns), p2 (2), g (2), g2 (3); 4 stored policies x every filter with empty / matching / non-matching values on the "
                 "leading 0-3 columns for p and for g x File, Memory and String adapters: full load, load_filtered_policy, stores, is_filtered, attempted "
                 "save_policy (must refuse when filtered), reload of the adapter; the same stores as raw policy TEXTS with comment / blank lines, "
                 "CRLF, spacing and quoting through the String and File adapters. non-trivial = the filter left some but not all rules out"),
        "distribution": dist,
    }


def nontrivial(c, mo):
    if "r=" not in mo:
        return False
    o = mo.split("r=")[1].split("|")
    return len(o) > 5 and o[0] != o[4] and o[4] != "-"
