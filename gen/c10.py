"""C10 cases: scripted adapter that refuses (Ok(false)) or fails (Err) at every
position of a management history, for all adapter entry points; loads failing
before / after / between rules; failing save and clear. The observation block is
recorded before the history and after every call."""
import itertools
import random
from hist import *


def generate(tier, seed):
    rnd = random.Random(seed)
    cases = []
    dist = {"single_fault": 0, "random": 0}
    for dom in (False, True):
        d = prio_dom_kind() if dom else prio_kind()
        sp = spec_of(d)
        al = mgmt_alphabet(dom, with_unknown=False) + ["LD", "SV", "LF:%s:%s" % (enc_rule(["alice"]), enc_rule([]))]
        obs = observe_steps(dom) + role_query_steps(dom)
        # one fault at each position of every history of length <= 2
        al_ex = al if tier != "quick" else al[::2]
        for k in (1, 2):
            for h in itertools.product(al_ex, repeat=k):
                for pos in range(k):
                    for fault in "rflh":
                        # the initial load (constructor) consumes the first script entry
                        script = "p" + "p" * pos + fault
                        # two-call helpers consume two entries: also fault the second call
                        steps = list(obs)
                        for o in h:
                            steps += [o] + obs
                        lines = [["p", "p"] + r for r in p_rules(dom)[:3]] + [["g", "g"] + r for r in g_rules(dom)[:2]]
                        cases.append(case("eng", sp, adapter_X(adapter_M(lines), script), "-", steps))
                        dist["single_fault"] += 1
                if tier == "quick" and len(cases) > 9000:
                    break
        # every BATCH call of the alphabet with the adapter refusing / failing exactly that call (the quick tier's every-other
        # sampling above would otherwise leave batch additions out)
        for o in [x for x in al if x.startswith("AM:") or x.startswith("RM:")]:
            for fault in "rf":
                steps = list(obs) + [o] + obs + [o] + obs
                lines = [["p", "p"] + r for r in p_rules(dom)[:2]] + [["g", "g"] + r for r in g_rules(dom)[:1]]
                cases.append(case("eng", sp, adapter_X(adapter_M(lines), "p" + fault), "-", steps))
                dist["batch_fault"] = dist.get("batch_fault", 0) + 1
        for _ in range(60 if tier == "quick" else 10000):
            n = rnd.choice([4, 10, 30])
            script = "p" + "".join(rnd.choice("ppprflh") for _ in range(n * 2))
            steps = list(obs)
            for _ in range(n):
                steps += [pick_op(rnd, al, dom)] + obs
            cases.append(case("eng", sp, adapter_X(adapter_M(initial_lines(rnd, dom, True)), script), "-", steps))
            dist["random"] += 1
        # a load that fails PART-WAY while the in-memory policy differs from the adapter's contents (auto-save off, then
        # edits): the rules already delivered must not survive, the old policy must stay, in its order
        dist["partial_load"] = dist.get("partial_load", 0)
        pr, gr = p_rules(dom), g_rules(dom)
        edits = [A("p", "p", pr[4]), R("p", "p", pr[0]), A("g", "g", gr[3]), R("g", "g", gr[0]), A("p", "p", pr[5]), R("p", "p", pr[1])]
        for k in (1, 2, 3):
            for es in itertools.permutations(edits, k) if k < 3 else [tuple(rnd.sample(edits, 3)) for _ in range(20)]:
                for ld in ("LD", "LF:%s:%s" % (enc_rule(["alice"]), enc_rule([])), "LF:%s:%s" % (enc_rule([]), enc_rule(["alice"]))):
                    for fault in "hlf":
                        steps = list(obs) + ["ES:0"]
                        for o in es:
                            steps += [o]
                        steps += obs + [ld] + obs
                        lines = [["p", "p"] + r for r in pr[:3]] + [["g", "g"] + r for r in gr[:2]]
                        cases.append(case("eng", sp, adapter_X(adapter_M(lines), "p" + fault), "-", steps))
                        dist["partial_load"] += 1
        # a load that FAILS while the role graph is not the image of the stored role rules (a rule added / removed with
        # auto-build off, auto-build switched on again afterwards): the failed load must leave the graph - and with it the
        # role queries and decisions - as it was, not rebuild it from the restored rules
        dist["failed_load_stale_graph"] = dist.get("failed_load_stale_graph", 0)
        for edit in (A("g", "g", gr[3]), R("g", "g", gr[0]), A("g", "g", gr[2])):
            for ld in ("LD", "LF:%s:%s" % (enc_rule(["alice"]), enc_rule([]))):
                for fault in "flh":
                    for back_on in (True, False):
                        steps = list(obs) + ["EB:0", edit] + (["EB:1"] if back_on else []) + obs + [ld] + obs
                        lines = [["p", "p"] + r for r in pr[:3]] + [["g", "g"] + r for r in gr[:2]]
                        cases.append(case("eng", sp, adapter_X(adapter_M(lines), "pp" + fault), "-", steps))
                        dist["failed_load_stale_graph"] += 1
        # the string adapter rejects every incremental call
        for o in al[:20]:
            steps = list(obs) + [o] + obs
            cases.append(case("eng", sp, adapter_S([["p"] + r for r in p_rules(dom)[:2]]), "-", steps))
    # a model WITHOUT a policy definition (request, roles, effect, matcher only): the constructor and load_policy accept it,
    # save_policy through the string / file adapter fails ("missing policy definition") - the failed save must leave what the
    # adapter holds exactly as it was (read back with ?rv and by a reload), however often it is repeated
    dist["roles_only_save"] = 0
    m = Call("g", V("r", "sub"), Lit("admin"))
    sp0 = "r=sub,obj,act;g=2;e=AO;m={%s}" % m
    gl = [["alice", "admin"], ["bob", "ops"], ["ops", "admin"]]
    obs0 = ["?ga:g", "?rv", "?rf:alice:-", "?uf:admin:-", "?hl:bob:admin:-"]
    for k in (0, 1, 2, 3):
        for ad in (adapter_S([["g"] + r for r in gl[:k]]), adapter_F([["g"] + r for r in gl[:k]]), adapter_M([["g", "g"] + r for r in gl[:k]])):
            for pre in ([], ["ES:0", A("g", "g", ["carl", "admin"])], ["ES:0", R("g", "g", gl[0])], ["CL"]):
                steps = list(obs0)
                for o in pre + ["SV", "SV", "LD"]:
                    steps += [o] + obs0
                cases.append(case("eng", sp0, ad, "-", steps))
                dist["roles_only_save"] += 1
    # file save with a write failure after k bytes (file-size limit in a child process)
    old = [["p", "alice", "data1", "read"], ["p", "bob", "data2", "write"], ["g", "alice", "admin"]]
    news = [[["p", "carol", "data3", "read"], ["p", "x,y", "data 4", "write"], ["g", "carol", "admin"], ["g", "dave", "admin"]],
            [], [["p", "a", "b", "c"]]]
    dist["save_limits"] = 0
    for new in news:
        total = sum(len((l[0] + ", " + ",".join(('"%s"' % v) if "," in v else v for v in l[1:])).encode()) + 1 for l in new)
        ks = list(range(0, total + 2))
        if tier == "quick" and len(ks) > 12:
            ks = sorted(set([0, 1, total - 1, total, total + 1] + rnd.sample(ks, 7)))
        for k in ks:
            cases.append("savecrash %s %s %d" % (enc_rules(old), enc_rules(new), k))
            dist["save_limits"] += 1
    # a stale temporary file left by an earlier interrupted save (shorter and LONGER than the new text) must not leak into the store
    for new in news:
        for n in (0, 5, 40, 400, 5000):
            cases.append("savecrash %s %s stale%d" % (enc_rules(old), enc_rules(new), n))
    # faults and crashes at SYSTEM-CALL boundaries of the save (strace injection in a child process): the n-th call of
    # each kind touching the policy file or its temporary sibling fails with EIO, or the process is killed entering it
    dist["syscall_faults"] = 0
    import shutil
    if shutil.which("strace"):
        # the sequence of file-system calls of a successful save = Model/FileSave.v's save_new (create tmp, write, rename)
        for new in news + [[["p", "x%d" % j] + ["v%d" % i for i in range(40)] for j in range(300)]]:      # (the last one: ~60 kB, several write calls)
            cases.append("savetrace %s %s" % (enc_rules(old), enc_rules(new)))
        for new in news[:2] if tier == "quick" else news:
            for sc in ("openat", "write", "close", "rename", "unlink", "fsync", "ftruncate", "fcntl"):
                for when in ((1, 2) if tier == "quick" else (1, 2, 3, 4)):
                    for kind in ("err", "kill"):
                        cases.append("savesys %s %s %s %d %s" % (enc_rules(old), enc_rules(new), sc, when, kind))
                        dist["syscall_faults"] += 1
    return {
        "cases": cases,
        "exhaustive": False,
        "rule": ("priority models: every history of <= 2 calls (management, RBAC helpers, clear_policy, save_policy, load_policy, load_filtered_policy) x every "
                 "position x {refuse, fail, fail after delivering everything, fail after delivering only the policy rules} injected by a scripted adapter around "
                 "MemoryAdapter; seeded random fault scripts over histories up to length 30; StringAdapter (every incremental call errs); the full observation "
                 "(stores, decisions, role queries) before the history and after every call. non-trivial = some call failed or was refused"),
        "distribution": dist,
    }


def nontrivial(c, mo):
    return "|EA|" in mo
