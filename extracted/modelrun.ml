(* Hand-written driver around the extracted Gallina model (model.ml).
   Line protocol, one case per line, first token = engine.
     modelrun run  <cases>            -> model observation per case
     modelrun pred <cases> <implout>  -> property predicate on the
                                         implementation's observation: 1 / 0 / -
   Tokens: percent-encoded strings (~ = empty string). *)
open Model

(* ---------- token coding ---------- *)
let explode (s : string) : char list = List.init (String.length s) (String.get s)
let implode (l : char list) : string = String.of_seq (List.to_seq l)

let is_safe c =
  (c >= 'a' && c <= 'z') || (c >= 'A' && c <= 'Z') || (c >= '0' && c <= '9')
  || c = '_' || c = '.' || c = '/' || c = '*'

let enc (l : char list) : string =
  if l = [] then "~" else begin
    let b = Buffer.create 16 in
    List.iter (fun c ->
      if is_safe c then Buffer.add_char b c
      else Buffer.add_string b (Printf.sprintf "%%%02X" (Char.code c))) l;
    Buffer.contents b end

let dec (s : string) : char list =
  if s = "~" then [] else begin
    let b = Buffer.create 16 in
    let n = String.length s in
    let i = ref 0 in
    while !i < n do
      if s.[!i] = '%' then begin
        Buffer.add_char b (Char.chr (int_of_string ("0x" ^ String.sub s (!i + 1) 2)));
        i := !i + 3 end
      else begin Buffer.add_char b s.[!i]; incr i end
    done;
    explode (Buffer.contents b) end

let split_on c s = if s = "" then [] else String.split_on_char c s
(* rule = fields joined by ',', empty rule = "!" ; rule list joined by ';', empty = "-" *)
let dec_rule s = if s = "!" then [] else List.map dec (split_on ',' s)
let enc_rule r = if r = [] then "!" else String.concat "," (List.map enc r)
let dec_rules s = if s = "-" then [] else List.map dec_rule (split_on ';' s)
let enc_rules rs = if rs = [] then "-" else String.concat ";" (List.map enc_rule rs)

let rec nat_of_int n = if n <= 0 then O else S (nat_of_int (n - 1))
let rec int_of_nat = function O -> 0 | S n -> 1 + int_of_nat n

let b01 b = if b then "1" else "0"
let ob01 = function Some true -> "1" | Some false -> "0" | None -> "P"
let parse_ob = function "1" -> Some true | "0" -> Some false | _ -> None

(* ---------- engine: effector (C02) ---------- *)
let erule_of = function
  | "AO" -> AllowOverride | "DO" -> DenyOverride | "AD" -> AllowAndDeny
  | "PR" -> Priority | s -> failwith ("erule " ^ s)
let eff_of = function 'a' -> Allow | 'i' -> Indet | 'd' -> Deny | _ -> failwith "eff"
let effs_of s = List.map eff_of (explode s)

let show_eobs (o : eobs) =
  Printf.sprintf "flags=%s run=%s all=%s"
    (String.concat "" (List.map b01 o.o_flags)) (ob01 o.o_run) (ob01 o.o_all)

let kv line =
  List.filter_map (fun t -> match String.index_opt t '=' with
      | Some i -> Some (String.sub t 0 i, String.sub t (i + 1) (String.length t - i - 1))
      | None -> None) (String.split_on_char ' ' line)

let parse_eobs line : eobs option =
  try
    let m = kv line in
    let fl = List.map (fun c -> c = '1') (explode (List.assoc "flags" m)) in
    Some { o_flags = fl; o_run = parse_ob (List.assoc "run" m);
           o_all = parse_ob (List.assoc "all" m) }
  with _ -> None

(* ---------- engine: role manager (C03) ---------- *)
let opt_of s = if s = "-" then None else Some (dec s)
let lop_of s = match String.split_on_char ',' s with
  | ["C"] -> LClear
  | ["A"; a; b; d] -> LAdd (dec a, dec b, opt_of d)
  | ["D"; a; b; d] -> LDel (dec a, dec b, opt_of d)
  | _ -> failwith ("lop " ^ s)
(* an op string may also hold has_link QUESTIONS asked in the middle of the history ("H,a,b,d"): they are not part of the
   history, their answers go into the ops= result string at their position *)
let is_mid_query s = String.length s > 1 && s.[0] = 'H' && s.[1] = ','
let op_items s = if s = "-" then [] else String.split_on_char '|' s
let lops_of s = List.map lop_of (List.filter (fun x -> not (is_mid_query x)) (op_items s))
let lq_of s = match String.split_on_char ',' s with
  | ["H"; a; b; d] -> QHas (dec a, dec b, opt_of d)
  | ["R"; n; d] -> QRoles (dec n, opt_of d)
  | ["U"; n; d] -> QUsers (dec n, opt_of d)
  | _ -> failwith ("lquery " ^ s)
let names_str l =
  let l = List.sort compare (List.map enc l) in
  if l = [] then "-" else String.concat "," l
let show_ans = function ABool b -> b01 b | ANames l -> names_str l
let parse_ans q s = match q with
  | QHas _ -> ABool (s = "1")
  | _ -> ANames (if s = "-" then [] else List.map dec (String.split_on_char ',' s))

let run_rm maxd ops qs =
  let maxd = nat_of_int (int_of_string maxd) in
  let m, res = List.fold_left (fun (m, acc) it ->
      if is_mid_query it then (m, show_ans (answer maxd m (lq_of it)) :: acc)
      else let (m', ok) = lstep m (lop_of it) in (m', b01 ok :: acc)) ([], []) (op_items ops) in
  let res = String.concat "" (List.rev res) in
  let ans = List.map (fun q -> show_ans (answer maxd m (lq_of q))) (String.split_on_char '|' qs) in
  Printf.sprintf "ops=%s q=%s" (if res = "" then "-" else res) (String.concat "|" ans)

let pred_rm maxd ops qs impl =
  let maxd = nat_of_int (int_of_string maxd) in
  let h = lops_of ops in
  let qs = List.map lq_of (String.split_on_char '|' qs) in
  let m = kv impl in
  let ans = String.split_on_char '|' (List.assoc "q" m) in
  (* questions asked in the middle of the history are judged against the history SO FAR *)
  let items = op_items ops in
  let opres = (try List.assoc "ops" m with Not_found -> "-") in
  let mid_ok =
    if String.length opres <> List.length items then not (List.exists is_mid_query items)
    else begin
      let ok = ref true and pre = ref [] in
      List.iteri (fun i it ->
          if is_mid_query it then
            (if not (c03_pred maxd (List.rev !pre) (lq_of it) (ABool (opres.[i] = '1'))) then ok := false)
          else pre := lop_of it :: !pre) items;
      !ok end in
  if List.length ans <> List.length qs then false
  else mid_ok && List.for_all2 (fun q a -> c03_pred maxd h q (parse_ans q a)) qs ans

(* ---------- engine: role manager with matching functions (C03, extended) ---------- *)
let mfid_of = function "-" -> None | "km" -> Some FKeyMatch | "km2" -> Some FKeyMatch2 | "km3" -> Some FKeyMatch3
                       | "fe" -> Some FFirstEq | s -> failwith ("mfid " ^ s)
let mop_of s = match String.split_on_char ',' s with
  | ["C"] -> IClear
  | ["A"; a; b; d] -> IAdd (dec a, dec b, opt_of d)
  | ["D"; a; b; d] -> IDel (dec a, dec b, opt_of d)
  | ["F"; rf; df] -> ISetFns (mfid_of rf, mfid_of df)
  | _ -> failwith ("mop " ^ s)
let mops_of s = if s = "-" then [] else List.map mop_of (String.split_on_char '|' s)
let uniq_sorted l = List.sort_uniq compare l
let names_str_raw l =
  let l = List.map enc (List.sort_uniq compare l) in
  if l = [] then "-" else String.concat "," l
let show_mans = function ABool b -> b01 b | ANames l -> names_str_raw l
let run_rmm maxd ops qs =
  let maxd = nat_of_int (int_of_string maxd) in
  let (m, flags) = mrun_i (mops_of ops) in
  let res = String.concat "" (List.map b01 flags) in
  let ans = List.map (fun q -> show_mans (manswer maxd m (lq_of q))) (String.split_on_char '|' qs) in
  Printf.sprintf "ops=%s q=%s" (if res = "" then "-" else res) (String.concat "|" ans)
(* pattern histories are judged by the declarative pattern-reachability spec (c03m_pred);
   plain histories by c03_pred; everything else only by model = implementation *)
let pred_rmm maxd ops qs impl =
  let maxd = nat_of_int (int_of_string maxd) in
  let h = mops_of ops in
  let qs = List.map lq_of (String.split_on_char '|' qs) in
  let ans = String.split_on_char '|' (List.assoc "q" (kv impl)) in
  if List.length ans <> List.length qs then "0" else
    let verdicts = List.map2 (fun q a -> c03m_pred maxd h q (parse_ans q a)) qs ans in
    if List.exists (fun v -> v = Some false) verdicts then "0"
    else if List.exists (fun v -> v = Some true) verdicts then "1" else "-"

(* ---------- engine: the whole enforcer (Engine.v) ---------- *)
let rec pos_of_int n = if n = 1 then XH else if n land 1 = 0 then XO (pos_of_int (n / 2)) else XI (pos_of_int (n / 2))
let z_of_int n = if n = 0 then Z0 else if n > 0 then Zpos (pos_of_int n) else Zneg (pos_of_int (- n))

(* expression s-expressions: (and,(eq,(var,r,sub),(lit,s.alice)),...) *)
let parse_scalar_tok t =
  let k = String.sub t 0 2 and r = String.sub t 2 (String.length t - 2) in
  match k with
  | "s." -> SStr (dec r) | "i." -> SInt (z_of_int (int_of_string r)) | "b." -> SBool (r = "1")
  | _ -> failwith ("scalar " ^ t)

type sx = Atom of string | Node of sx list
let parse_sx (s : string) : sx =
  let n = String.length s in
  let pos = ref 0 in
  let rec item () =
    if !pos < n && s.[!pos] = '(' then begin
      incr pos;
      let items = ref [] in
      let continue = ref true in
      while !continue do
        items := item () :: !items;
        if !pos < n && s.[!pos] = ',' then incr pos
        else if !pos < n && s.[!pos] = ')' then (incr pos; continue := false)
        else failwith ("sx syntax at " ^ string_of_int !pos ^ " in " ^ s)
      done;
      Node (List.rev !items)
    end else begin
      let st = !pos in
      while !pos < n && s.[!pos] <> ',' && s.[!pos] <> ')' && s.[!pos] <> '(' do incr pos done;
      Atom (String.sub s st (!pos - st))
    end in
  item ()

let rec expr_of_sx (x : sx) : expr =
  let a = function Atom t -> t | _ -> failwith "atom expected" in
  match x with
  | Node [Atom "lit"; Atom t] -> ELit (parse_scalar_tok t)
  | Node [Atom "var"; p; f] -> EVar (dec (a p), dec (a f))
  | Node [Atom "prop"; e; f] -> EProp (expr_of_sx e, dec (a f))
  | Node [Atom "eq"; x; y] -> EEq (expr_of_sx x, expr_of_sx y)
  | Node [Atom "neq"; x; y] -> ENeq (expr_of_sx x, expr_of_sx y)
  | Node [Atom "lt"; x; y] -> ECmp (CLt, expr_of_sx x, expr_of_sx y)
  | Node [Atom "le"; x; y] -> ECmp (CLe, expr_of_sx x, expr_of_sx y)
  | Node [Atom "gt"; x; y] -> ECmp (CGt, expr_of_sx x, expr_of_sx y)
  | Node [Atom "ge"; x; y] -> ECmp (CGe, expr_of_sx x, expr_of_sx y)
  | Node [Atom "and"; x; y] -> EAnd (expr_of_sx x, expr_of_sx y)
  | Node [Atom "or"; x; y] -> EOr (expr_of_sx x, expr_of_sx y)
  | Node [Atom "not"; x] -> ENot (expr_of_sx x)
  | Node (Atom "in" :: x :: xs) -> EIn (expr_of_sx x, List.map expr_of_sx xs)
  | Node (Atom "call" :: f :: args) -> ECall (dec (a f), List.map expr_of_sx args)
  | Node [Atom "eval"; p; f] -> EEval (dec (a p), dec (a f))
  | _ -> failwith "expr sx"
let expr_of_string s = expr_of_sx (parse_sx s)

(* {expr} occurrences in a line: positions *)
let braces (line : string) : (int * int) list =
  let res = ref [] and st = ref (-1) in
  String.iteri (fun i c -> if c = '{' then st := i
                 else if c = '}' && !st >= 0 then (res := (!st, i) :: !res; st := -1)) line;
  List.rev !res

(* prep: replace every {expr} by the encoded matcher text print_expr produces *)
let prep_line (line : string) : string =
  let b = Buffer.create (String.length line) in
  let last = ref 0 in
  List.iter (fun (i, j) ->
      Buffer.add_string b (String.sub line !last (i - !last));
      let e = expr_of_string (String.sub line (i + 1) (j - i - 1)) in
      Buffer.add_string b (enc (print_expr e));
      last := j + 1) (braces line);
  Buffer.add_string b (String.sub line !last (String.length line - !last));
  Buffer.contents b

(* eval() parse table: escaped printed text -> expression *)
let ptab_of_line (line : string) : (char list * expr) list =
  List.map (fun (i, j) ->
      let e = expr_of_string (String.sub line (i + 1) (j - i - 1)) in
      (escape_assertion (print_expr e), e)) (braces line)

(* a rule field may be {expr}: the policy then stores its printed text *)
let dec_field s =
  if String.length s > 0 && s.[0] = '{' then
    print_expr (expr_of_string (String.sub s 1 (String.length s - 2)))
  else dec s
(* split on c outside {...} *)
let split_outside (c : char) (s : string) : string list =
  let res = ref [] and cur = Buffer.create 16 and depth = ref 0 in
  String.iter (fun ch ->
      if ch = '{' then incr depth else if ch = '}' then decr depth;
      if ch = c && !depth = 0 then (res := Buffer.contents cur :: !res; Buffer.clear cur)
      else Buffer.add_char cur ch) s;
  List.rev (Buffer.contents cur :: !res)
let dec_rule s = if s = "!" then [] else List.map dec_field (split_outside ',' s)
let dec_rules s = if s = "-" then [] else List.map dec_rule (split_outside ';' s)

let parse_val s : value =
  if String.length s >= 2 && String.sub s 0 2 = "m." then begin
    let r = String.sub s 2 (String.length s - 2) in
    VMap (if r = "" then [] else
            List.map (fun kv -> match String.index_opt kv '=' with
                | Some i -> (dec (String.sub kv 0 i),
                             parse_scalar_tok (String.sub kv (i + 1) (String.length kv - i - 1)))
                | None -> failwith "map kv") (String.split_on_char '&' r))
  end else of_scalar (parse_scalar_tok s)
let parse_vals s = if s = "!" then [] else List.map parse_val (String.split_on_char ',' s)

let effect_text = function
  | "AO" -> explode "some(where (p.eft == allow))"
  | "DO" -> explode "!some(where (p.eft == deny))"
  | "AD" -> explode "some(where (p.eft == allow)) && !some(where (p.eft == deny))"
  | "PR" -> explode "priority(p.eft) || deny"
  | s -> dec (String.sub s 1 (String.length s - 1))

let join_text sep l = explode (String.concat sep (List.map implode l))
let mk_ast v toks = { a_value = v; a_tokens = toks; a_policy = []; a_handle = HOwn }

(* r=sub,obj,act;p=...;g=2;e=AO;m={expr}  ->  modeldef; sections in load order r p e m g,
   keys of a section in order of appearance (suffixes 2,3,... without gaps) *)
let modeldef_of_spec (spec : string) : modeldef =
  let secs = Hashtbl.create 8 in
  let add sec k a = Hashtbl.replace secs sec ((try Hashtbl.find secs sec with Not_found -> []) @ [(explode k, a)]) in
  let mx = ref [] in
  List.iter (fun kv ->
      if kv <> "" then
        let i = String.index kv '=' in
        let k = String.sub kv 0 i and v = String.sub kv (i + 1) (String.length kv - i - 1) in
        match k.[0] with
        | 'r' | 'p' ->
          let flds = List.map dec (String.split_on_char ',' v) in
          add (String.make 1 k.[0]) k
            (mk_ast (join_text ", " flds) (List.map (fun f -> explode k @ ('_' :: f)) flds))
        | 'g' ->
          let n = int_of_string v in
          add "g" k (mk_ast (explode (String.concat ", " (List.init n (fun _ -> "_")))) [])
        | 'e' -> add "e" k (mk_ast (escape_assertion (effect_text v)) [])
        | 'm' ->
          let e = expr_of_string (String.sub v 1 (String.length v - 2)) in
          add "m" k (mk_ast (escape_assertion (print_expr e)) []);
          mx := !mx @ [(explode k, e)]
        | _ -> failwith ("model spec " ^ kv)) (split_outside ';' spec);
  let md = List.filter_map (fun sec ->
      match Hashtbl.find_opt secs sec with
      | Some am -> Some (explode sec, am) | None -> None) ["r"; "p"; "e"; "m"; "g"] in
  { d_model = md; d_mexprs = !mx }

let rec adapter_of_parts (parts : string list) : adapter =
  match parts with
  | ["N"] -> ANull
  | ["M"; l; f] -> AMemory (dec_rules l, f = "1")
  | ["F"; l; f] -> AFile (dec_rules l, f = "1")
  | ["S"; l; f] -> AString (dec_rules l, f = "1")
  | ["T"; t] -> AString (parsed_lines (dec t), false)
  | ["Ft"; t] -> AFile (parsed_lines (dec t), false)
  | "X" :: rest ->
    let n = List.length rest in
    let inner = List.filteri (fun i _ -> i < n - 1) rest and sc = List.nth rest (n - 1) in
    AScripted (adapter_of_parts inner,
               if sc = "-" then [] else
                 List.map (function 'p' -> RPass | 'r' -> RRefuse | 'f' -> RFail | 'l' -> RFailLate
                                  | 'h' -> RFailPartial | _ -> failwith "script") (explode sc))
  | _ -> failwith "adapter spec"
let adapter_of_spec s = adapter_of_parts (String.split_on_char '@' s)

let ufun_of = function "eq" -> UEq | "neq" -> UNeq | "prefix" -> UPrefix | "true" -> UTrue
                       | _ -> failwith "ufun"

type stepk = SOp of op | SQuery of query | SWlog | SReload | SFresh | SQuery2 of query | SFileGone of bool | SMark
           | SCtx4 of (char list * char list * char list * char list) * value list

let rec step_of (st : string) : stepk =
  if String.length st > 2 && String.sub st 0 2 = "?2" then
    (match step_of ("?" ^ String.sub st 2 (String.length st - 2)) with
     | SQuery q -> SQuery2 q
     | _ -> failwith ("step " ^ st))
  else step_of1 st
and step_of1 (st : string) : stepk =
  let f = String.split_on_char ':' st in
  let b s = s = "1" in
  match f with
  | ["A"; sec; pt; r] -> SOp (OAdd (explode sec, dec pt, dec_rule r))
  | ["AM"; sec; pt; rs] -> SOp (OAddMany (explode sec, dec pt, dec_rules rs))
  | ["R"; sec; pt; r] -> SOp (ORemove (explode sec, dec pt, dec_rule r))
  | ["RM"; sec; pt; rs] -> SOp (ORemoveMany (explode sec, dec pt, dec_rules rs))
  | ["RF"; sec; pt; i; v] -> SOp (ORemoveFiltered (explode sec, dec pt, nat_of_int (int_of_string i), dec_rule v))
  | ["ap"; u; p] -> SOp (ORbac (RAddPermission (dec u, dec_rule p)))
  | ["aps"; u; ps] -> SOp (ORbac (RAddPermissions (dec u, dec_rules ps)))
  | ["ar"; u; r; d] -> SOp (ORbac (RAddRole (dec u, dec r, opt_of d)))
  | ["ars"; u; rs; d] -> SOp (ORbac (RAddRoles (dec u, dec_rule rs, opt_of d)))
  | ["dr"; u; r; d] -> SOp (ORbac (RDeleteRole (dec u, dec r, opt_of d)))
  | ["drs"; u; d] -> SOp (ORbac (RDeleteRoles (dec u, opt_of d)))
  | ["du"; n] -> SOp (ORbac (RDeleteUser (dec n)))
  | ["dra"; n] -> SOp (ORbac (RDeleteRoleAll (dec n)))
  | ["dp"; p] -> SOp (ORbac (RDeletePermission (dec_rule p)))
  | ["dpf"; u; p] -> SOp (ORbac (RDeletePermissionFor (dec u, dec_rule p)))
  | ["dpsf"; u] -> SOp (ORbac (RDeletePermissionsFor (dec u)))
  | ["CL"] -> SOp OClear | ["LD"] -> SOp OLoad
  | ["LF"; fp; fg] -> SOp (OLoadFiltered (dec_rule fp, dec_rule fg))
  | ["SV"] -> SOp OSave | ["BR"] -> SOp OBuildRoleLinks
  | ["SM"; spec] -> SOp (OSetModel (modeldef_of_spec spec))
  | ["SMR"; spec; rules] ->
    (* the model handed to set_model already carries rules (Model::add_policy before the call) *)
    let d = modeldef_of_spec spec in
    let md = List.fold_left (fun md l -> match l with sec :: pt :: r -> fst (m_add_policy md sec pt r) | _ -> md)
        d.d_model (dec_rules rules) in
    SOp (OSetModel { d with d_model = md })
  | ["SA"; spec] -> SOp (OSetAdapter (adapter_of_spec spec))
  | ["SR"; n] -> SOp (OSetRoleManager (nat_of_int (int_of_string n)))
  (* SRP: the replacement manager arrives holding links of its own; with auto-build on (checked where the step runs) the
     links are rebuilt from the stored rules, so the model's answer is that of a fresh manager *)
  | ["SRP"; n; _] -> SOp (OSetRoleManager (nat_of_int (int_of_string n)))
  | ["SE"] -> SOp OSetEffector
  | ["AF"; n; u] -> SOp (OAddFunction (dec n, ufun_of u))
  | ["EE"; x] -> SOp (OEnableEnforce (b x)) | ["ES"; x] -> SOp (OEnableAutoSave (b x))
  | ["EB"; x] -> SOp (OEnableAutoBuild (b x)) | ["EN"; x] -> SOp (OEnableAutoNotify (b x))
  | ["?e"; v] | ["?em"; v] | ["?et"; v] -> SQuery (QEnforce (parse_vals v))
  | ["?ec"; k; v] -> SQuery (QEnforceCtx (dec k, parse_vals v))
  | ["?c4"; rk; pk; ek; mk; v] -> SCtx4 ((dec rk, dec pk, dec ek, dec mk), parse_vals v)
  | ["?gp"; sec; pt] -> SQuery (QGetPolicy (explode sec, dec pt))
  | ["?ga"; sec] -> SQuery (QGetAll (explode sec))
  | ["?hp"; sec; pt; r] -> SQuery (QHasPolicy (explode sec, dec pt, dec_rule r))
  | ["?gf"; sec; pt; i; v] -> SQuery (QGetFiltered (explode sec, dec pt, nat_of_int (int_of_string i), dec_rule v))
  | ["?vl"; sec; pt; i] -> SQuery (QValues (explode sec, dec pt, nat_of_int (int_of_string i)))
  | ["?rf"; n; d] -> SQuery (QRolesFor (dec n, opt_of d))
  | ["?uf"; n; d] -> SQuery (QUsersFor (dec n, opt_of d))
  | ["?hr"; n; r; d] -> SQuery (QHasRole (dec n, dec r, opt_of d))
  | ["?ir"; n; d] -> SQuery (QImplicitRoles (dec n, opt_of d))
  | ["?pf"; n; d] -> SQuery (QPermsFor (dec n, opt_of d))
  | ["?ip"; n; d] -> SQuery (QImplicitPerms (dec n, opt_of d))
  | ["?iu"; p] -> SQuery (QImplicitUsers (dec_rule p))
  | ["?if"] -> SQuery QIsFiltered
  | ["?hl"; a; b; d] -> SQuery (QHasLink (dec a, dec b, opt_of d))
  | ["?wl"] -> SWlog
  | ["?rv"] -> SReload
  | ["FRESH"] -> SFresh
  | ["MK"; _] -> SMark      (* a marker for the predicates; no effect *)
  | ["FX"] -> SFileGone true
  | ["FO"] -> SFileGone false
  | _ -> failwith ("step " ^ st)

let errc_str = function
  | ERequest -> "ER" | EPolicy -> "EP" | EEvalc -> "EV" | EModel -> "EM" | ERbac -> "EB"
  | EAdapter -> "EA" | EIo -> "EI"
let outcome_str = function Ok b -> b01 b | Err e -> errc_str e | Panic -> "P"
let sorted_rule l = enc_rule (List.map explode (List.sort compare (List.map implode l)))
let sorted_rules l =
  let l = List.sort compare (List.map (List.map implode) l) in
  enc_rules (List.map (List.map explode) l)
let answer_str = function
  | AnsDec o -> outcome_str o
  | AnsRules l -> enc_rules l
  | AnsRuleBag l -> sorted_rules l
  | AnsNames l -> enc_rule l
  | AnsNameSet l -> sorted_rule l
  | AnsBool b -> b01 b
  | AnsPanic -> "P"
let event_str = function
  | EvAdd (s, p, r) -> Printf.sprintf "EA^%s^%s^%s" (enc s) (enc p) (enc_rule r)
  | EvAddMany (s, p, r) -> Printf.sprintf "EAM^%s^%s^%s" (enc s) (enc p) (enc_rules r)
  | EvRemove (s, p, r) -> Printf.sprintf "ER^%s^%s^%s" (enc s) (enc p) (enc_rule r)
  | EvRemoveMany (s, p, r) -> Printf.sprintf "ERM^%s^%s^%s" (enc s) (enc p) (enc_rules r)
  | EvRemoveFiltered (s, p, r) -> Printf.sprintf "ERF^%s^%s^%s" (enc s) (enc p) (enc_rules r)
  | EvSave r -> Printf.sprintf "ES^%s" (enc_rules r)
  | EvClear -> "EC"

let run_eng_line (line : string) (spec : string) (ad : string) (flags : string) (steps : string) : string =
  let table = ptab_of_line line in
  let ptab t = List.assoc_opt t table in
  let d = modeldef_of_spec spec in
  match new_enforcer d (adapter_of_spec ad) (String.contains flags 'w') with
  | (_, Err e) -> "new=" ^ errc_str e
  | (_, Panic) -> "new=P"
  | (s0, Ok _) ->
    let s = ref s0 and poisoned = ref false and fresh = ref None and gone = ref false in
    let outs = if steps = "-" then [] else
        List.map (fun st ->
            if !poisoned then "X" else
              let () = if String.length st > 4 && String.sub st 0 4 = "SRP:" && not !s.e_auto_build then
                  failwith "SRP step with auto-build off: the generator must not emit it there" in
              match step_of st with
              | SFileGone b ->
                (match !s.e_adapter with AFile _ -> gone := b; "1" | _ -> "E")
              (* while the policy file is unavailable, a load through the file adapter fails with an I/O
                 error and changes nothing (this failure path is specified here, in the driver: Engine.v's
                 file adapter cannot fail) *)
              | SOp (OLoad | OLoadFiltered _) when !gone && (match !s.e_adapter with AFile _ -> true | _ -> false) -> "EI"
              | SReload when !gone && (match !s.e_adapter with AFile _ -> true | _ -> false) -> "EI"
              | SOp (OSetAdapter _ as o) -> gone := false;
                let (s', r) = step !s o in
                s := s';
                (match r with Panic -> poisoned := true | _ -> ());
                outcome_str r
              | SOp o -> let (s', r) = step !s o in
                s := s';
                (match r, o with Panic, OSave -> () | Panic, _ -> poisoned := true | _ -> ());
                outcome_str r
              | SQuery q -> answer_str (ask ptab !s q)
              | SCtx4 ((rk, pk, ek, mk), rv) -> outcome_str (enforce_with_ctx4 ptab !s rk pk ek mk rv)
              | SMark -> "1"
              | SFresh ->
                (match fresh_of !s with
                 | (fs, Ok _) -> fresh := Some fs; "1"
                 | _ -> fresh := None; "E")
              | SQuery2 q -> (match !fresh with Some fs -> answer_str (ask ptab fs q) | None -> "NOFRESH")
              | SWlog -> if !s.e_wlog = [] then "-" else String.concat "+" (List.map event_str !s.e_wlog)
              | SReload ->
                let ((s', md), r) = reload_view !s in
                s := s';
                (match r with
                 | LROk -> enc_rules (m_get_all md (explode "p") @ m_get_all md (explode "g"))
                 | LRErr e -> errc_str e
                 | LRPanic -> "P"))
          (String.split_on_char '|' steps) in
    "new=1 r=" ^ String.concat "|" outs

(* ---------- engine: path matchers (C15 / C06) ---------- *)
(* a pattern token is either percent-encoded text or @<segs> with segs =
   comma-separated L.<word> | N.<name> | S, rendered by the Gallina printers *)
let segs_of (s : string) : seg list =
  if s = "" then [] else
    List.map (fun t ->
        if t = "S" then SStar
        else match String.sub t 0 2, String.sub t 2 (String.length t - 2) with
          | "L.", w -> SLit (dec w) | "N.", n -> SNamed (dec n) | _ -> failwith "seg") (String.split_on_char ',' s)
let brace_style fn = (fn = "km3" || fn = "kg3" || fn = "km4" || fn = "km5")
let pattern_of fn (tok : string) : char list * seg list option =
  if String.length tok > 0 && tok.[0] = '@' then
    let p = segs_of (String.sub tok 1 (String.length tok - 1)) in
    ((if brace_style fn then render3 p else render2 p), Some p)
  else (dec tok, None)
let ob = function Some true -> "1" | Some false -> "0" | None -> "U"
let ot = function Some t -> "t." ^ enc t | None -> "U"
let run_pm fn k pat rest =
  let k = dec k in
  let (p, _) = pattern_of fn pat in
  match fn, rest with
  | "km", [] -> b01 (key_match k p)
  | "kg", [] -> "t." ^ enc (key_get k p)
  | "km2", [] -> ob (key_match2 k p)
  | "kg2", [v] -> ot (key_get2 k p (dec v))
  | "km3", [] -> ob (key_match3 k p)
  | "kg3", [v] -> ot (key_get3 k p (dec v))
  | "km4", [] -> ob (key_match4 k p)
  | "km5", [] -> ob (key_match5 k p)
  | "rm", [] -> ob (regex_match_words k p)
  | _ -> failwith "pm"
(* the documented meaning, independent of any regular expression *)
let spec_pm fn k pat rest : string option =
  let k = dec k in
  match pattern_of fn pat with
  | (_, Some p) when grammar p ->
    (match fn, rest with
     | ("km2" | "km3"), [] -> Some (b01 (spec_km p k))
     | "km5", [] -> Some (b01 (spec_km5 p k))
     | "km4", [] -> Some (b01 (spec_km4 p k))
     | ("kg2" | "kg3"), [v] -> Some ("t." ^ enc (spec_get p k (dec v)))
     | _ -> None)
  | (ptxt, _) ->
    (match fn, rest with
     | "km", [] -> let (pre, found) = before_star ptxt in
       Some (b01 (if found then is_prefix pre k else k = ptxt))
     | "kg", [] -> let (pre, found) = before_star ptxt in
       Some ("t." ^ enc (if found && is_prefix pre k && List.length k > List.length pre
                         then List.filteri (fun i _ -> i >= List.length pre) k else []))
     | _ -> None)
let prep_pm (toks : string list) : string =
  match toks with
  | "pm" :: fn :: k :: pat :: rest ->
    let (p, _) = pattern_of fn pat in
    String.concat " " ("pm" :: fn :: k :: enc p :: rest)
  | _ -> String.concat " " toks

(* ---------- engine: text formats (C16 / C09) ---------- *)
let sort_strs l = List.sort compare l
let run_txt kind t =
  let t = dec t in
  match kind with
  | "csv" -> (match parse_csv_line t with None -> "N" | Some v -> enc_rule v)
  | "esc" -> "t." ^ enc (escape_assertion t)
  | "rmc" -> "t." ^ enc (remove_comment t)
  | "csvf" -> "t." ^ enc (csv_field t)
  | "ini" ->
    (match parse_config t with
     | None -> "E"
     | Some c ->
       if c = [] then "-" else
         let raw = List.sort compare (List.map (fun ((s, k), v) -> (implode s, implode k, implode v)) c) in
         String.concat "+" (List.map (fun (s, k, v) ->
             Printf.sprintf "%s^%s^%s" (enc (explode s)) (enc (explode k)) (enc (explode v))) raw))
  | "mdl" ->
    (match model_of_text t with
     | None -> "E"
     | Some m ->
       let out = List.concat_map (fun (sec, ds) ->
           List.map (fun d -> Printf.sprintf "%s^%s^%s^%s" (implode sec) (enc d.ad_key) (enc d.ad_value)
                        (enc_rule d.ad_tokens)) ds) m in
       if out = [] then "-" else String.concat "+" out)
  | "totext" ->
    (match model_of_text t with
     | None -> "E"
     | Some m -> "t." ^ enc (to_text m))
  | _ -> failwith "txt"
let dump_str m =
  let out = List.concat_map (fun (sec, ds) ->
      List.map (fun d -> Printf.sprintf "%s^%s^%s^%s" (implode sec) (enc d.ad_key) (enc d.ad_value)
                   (enc_rule d.ad_tokens)) ds) m in
  if out = [] then "-" else String.concat "+" out
(* known finding D29 (class to_text_token_embedding): Model::to_text un-escapes tokens by successive textual replacement in HashMap
   order; when one token's text is a proper part of another's (r = a, p = r_a: "r_a" inside "p_r_a") the printed text is wrong
   whatever the order, and differs from run to run. The class predicate: two different replacement patterns, one inside the other. *)
let token_embedding (m : (char list * adef list) list) : bool =
  let toks = List.concat_map (fun (sec, ds) ->
      if implode sec = "r" || implode sec = "p" then List.concat_map (fun d -> d.ad_tokens) ds else []) m in
  let toks = List.sort_uniq compare toks in
  List.exists (fun a -> List.exists (fun b -> a <> b && is_infix a b) toks) toks
let run_txt2 kind t1 t2opt =
  let a = model_of_text (dec t1) in
  if kind = "tt" && (match a with Some m -> token_embedding m | None -> false) then "~" else
  let t2 = match kind, t2opt with
    | "mdl2", Some t2 -> Some (dec t2)
    | _ -> (match a with Some m -> Some (to_text m) | None -> None) in
  let b = match t2 with Some t -> (match model_of_text t with Some m -> dump_str m | None -> "E") | None -> "E" in
  (match a with Some m -> dump_str m | None -> "E") ^ " ## " ^ b
(* a dump back into (key, value, tokens) triples for the extracted c16_model_equiv *)
let parse_dump (s : string) =
  if s = "-" then [] else
    List.map (fun e -> match String.split_on_char '^' e with
        | [_; k; v; toks] -> ((dec k, dec v), (if toks = "!" then [] else List.map dec (String.split_on_char ',' toks)))
        | _ -> failwith "dump") (String.split_on_char '+' s)
let rule_of_out0 o = if o = "!" then [] else List.map dec (String.split_on_char ',' o)
let pred_txt toks impl =
  if impl = "PANIC" || impl = "HANG" || impl = "ABORT" then "0" else
  match toks with
  | ["csvx"; _; expected] ->
    let exp = rule_of_out0 expected in
    b01 (c16_csv_pred exp (if impl = "N" then None else Some (rule_of_out0 impl)))
  | ["mdl2"; _; _] | ["tt"; _] ->
    let known = (match toks with
        | ["tt"; t] -> (match model_of_text (dec t) with Some m -> token_embedding m | None -> false)
        | _ -> false) in
    (match Str.bounded_split (Str.regexp_string " ## ") impl 2 with
     | [a; b] when a <> "E" && b <> "E" ->
       if c16_model_equiv (parse_dump a) (parse_dump b) then "1" else if known then "K:to_text_token_embedding" else "0"
     | [a; _] when a <> "E" && known -> "K:to_text_token_embedding"
     | _ -> "0")
  | _ -> "1"   (* totality stream: parsed or rejected, never a panic *)

(* ---------- engine: file save under an injected write failure (C10) ---------- *)
let save_text_len (lines : char list list list) : int =
  List.fold_left (fun acc l -> match l with
      | pt :: r -> acc + List.length (render_line_file pt r) + 1
      | [] -> acc) 0 lines
(* the call sequence Model/FileSave.v's save_new prescribes, rendered like the harness renders the strace log *)
let run_savetrace new_l =
  let nl = dec_rules new_l in
  let bytes = List.concat_map (fun l -> match l with pt :: r -> render_line_file pt r @ ['\n'] | [] -> []) nl in
  let tmp = explode "tmp" and path = explode "path" in
  let name p = implode p in
  let ops = List.filter_map (fun o -> match o with
      | Create p -> Some ("C:" ^ name p)
      | Append (p, bs) -> if bs = [] then None else Some (Printf.sprintf "W:%s:%d" (name p) (List.length bs))
      | Rename (p, q) -> Some (Printf.sprintf "R:%s:%s" (name p) (name q))
      | Remove p -> Some ("U:" ^ name p)) (save_new tmp path bytes) in
  String.concat "|" ops
let run_savecrash old_l new_l limit =
  let nl = dec_rules new_l in
  (* "stale<n>": a stale temporary file is present, no write limit: the save succeeds *)
  let ok = (String.length limit > 5 && String.sub limit 0 5 = "stale") || int_of_string limit >= save_text_len nl in
  Printf.sprintf "res=%s file=%s tmp=0" (if ok then "ok" else "err") (if ok then enc_rules nl else enc_rules (dec_rules old_l))
let pred_savecrash old_l new_l impl =
  let m = kv impl in
  match List.assoc_opt "file" m with
  | Some f -> b01 (f = enc_rules (dec_rules old_l) || f = enc_rules (dec_rules new_l))
  | None -> "0"

(* ---------- property predicates on engine traces ---------- *)
let cvprop = try Sys.getenv "CVPROP" with Not_found -> ""

(* replays the MODEL through the steps and returns, per step, the state before
   it and the parsed step; used to evaluate specification-side predicates on
   the implementation's outputs *)
let trace_of (line : string) spec ad flags steps =
  let table = ptab_of_line line in
  let ptab t = List.assoc_opt t table in
  let d = modeldef_of_spec spec in
  match new_enforcer d (adapter_of_spec ad) (String.contains flags 'w') with
  | (s0, Ok _) ->
    let s = ref s0 in
    let tr = if steps = "-" then [] else
        List.map (fun st ->
            let k = step_of st in
            let before = !s in
            (match k with
             | SOp o -> let (s', _) = step !s o in s := s'
             | SReload -> let ((s', _), _) = reload_view !s in s := s'
             | _ -> ());
            (before, k, st)) (String.split_on_char '|' steps) in
    Some (ptab, tr)
  | _ -> None

let impl_results (impl : string) : string list option =
  let m = kv impl in
  match List.assoc_opt "new" m, List.assoc_opt "r" m with
  | Some "1", Some r -> Some (String.split_on_char '|' r)
  | Some "1", None -> Some []
  | _ -> None

let pred_c01 line spec ad flags steps impl =
  match trace_of line spec ad flags steps, impl_results impl with
  | Some (ptab, tr), Some outs when List.length outs = List.length tr ->
    List.for_all2 (fun (s, k, _) o ->
        match k with
        | SQuery (QEnforce rv) -> o = outcome_str (perm_ref_plain ptab s rv)
        | SQuery (QEnforceCtx (sfx, rv)) -> o = outcome_str (perm_ref_ctx ptab s sfx rv)
        | SCtx4 ((rk, pk, ek, mk), rv) -> o = outcome_str (perm_ref_ctx4 ptab s rk pk ek mk rv)
        | _ -> true) tr outs
  | _ -> false

(* C17: enforce_with_context(k, rv) immediately followed by enforce(rv) must agree *)
let pred_c17 steps impl =
  match impl_results impl with
  | Some outs ->
    let sts = if steps = "-" then [] else String.split_on_char '|' steps in
    if List.length sts <> List.length outs then false else
      let rec go sts outs = match sts, outs with
        | s1 :: (s2 :: _ as st'), o1 :: (o2 :: _ as os') ->
          let ok =
            if String.length s1 > 4 && String.sub s1 0 4 = "?ec:" && String.length s2 > 3 && String.sub s2 0 3 = "?e:" then
              (match String.split_on_char ':' s1, String.split_on_char ':' s2 with
               | [_; _; v1], [_; v2] when v1 = v2 -> o1 = o2
               | _ -> true)
            else true in
          ok && go st' os'
        | _ -> true in
      go sts outs
  | None -> false

(* ---- trace-level predicates that need no model: they compare the
   implementation's own observations with each other ---- *)
let steps_list steps = if steps = "-" then [] else String.split_on_char '|' steps
let is_query st = String.length st > 0 && st.[0] = '?'
let sub_list l i n = List.filteri (fun j _ -> j >= i && j < i + n) l

(* length of the maximal run of query steps ending just before index i *)
let block_before sts i =
  let a = Array.of_list sts in
  let n = ref 0 in
  while i - 1 - !n >= 0 && is_query a.(i - 1 - !n) do incr n done; !n

(* C05: the block of queries before an explicit build_role_links equals the block after it *)
let pred_c05 steps impl =
  match impl_results impl with
  | Some outs ->
    let sts = steps_list steps in
    if List.length sts <> List.length outs then false else
      let ok = ref true in
      List.iteri (fun i st ->
          if st = "BR" then begin
            let n = block_before sts i in
            if sub_list sts (i - n) n = sub_list sts (i + 1) n then
              (if sub_list outs (i - n) n <> sub_list outs (i + 1) n then ok := false)
          end) sts;
      !ok
  | None -> false

let cat_dumps a b = match a, b with
  | "-", x -> x | x, "-" -> x | x, y -> x ^ ";" ^ y

(* C09: a reload of the adapter equals the stores dumped just before it; and
   save_policy + load_policy leaves the 3 observations around it unchanged *)
let pred_c09 steps impl =
  match impl_results impl with
  | Some outs ->
    let sts = Array.of_list (steps_list steps) and os = Array.of_list outs in
    if Array.length sts <> Array.length os then false else begin
      let ok = ref true in
      Array.iteri (fun i st ->
          if st = "?rv" && i >= 2 && sts.(i - 2) = "?ga:p" && sts.(i - 1) = "?ga:g" then begin
            (* only adapters that persist incremental changes are required to be in sync:
               the generator uses this triple on Memory adapters and after save+load *)
            if os.(i) <> cat_dumps os.(i - 2) os.(i - 1) && os.(i) <> "EA" then ok := false
          end;
          if st = "SV" && i + 4 < Array.length sts && sts.(i + 1) = "LD" && os.(i) = "1" && os.(i + 1) = "1" && i >= 3 then begin
            if not (os.(i - 3) = os.(i + 2) && os.(i - 2) = os.(i + 3) && os.(i - 1) = os.(i + 4)) then ok := false
          end) sts;
      !ok end
  | None -> false

(* C10: a call that the adapter refused (Ok false) or failed (Err adapter)
   leaves the whole observation block unchanged. Known finding: the two-call
   helpers delete_user / delete_role apply their first removal before the second
   adapter call fails. *)
let pred_c10 ?(mouts = None) steps impl =
  match impl_results impl with
  | Some outs ->
    let sts = Array.of_list (steps_list steps) and os = Array.of_list outs in
    if Array.length sts <> Array.length os then "0" else begin
      let res = ref "1" in
      let stl = Array.to_list sts in
      (* the adapter's answer is not always visible in the call's own result (an implementation may swallow a refusal and
         report success): the MODEL's result for the same call on the same scripted adapter says whether the adapter refused
         or failed it - then, too, nothing may have changed *)
      let model_says_rejected i = match mouts with
        | Some m when Array.length m = Array.length os -> m.(i) = "EA" || m.(i) = "0"
        | _ -> false in
      Array.iteri (fun i st ->
          if not (is_query st) && (os.(i) = "EA" || os.(i) = "0" || model_says_rejected i) then begin
            let n = block_before stl i in
            if n > 0 && i + n < Array.length sts && sub_list stl (i - n) n = sub_list stl (i + 1) n then
              if sub_list outs (i - n) n <> sub_list outs (i + 1) n then begin
                let two_call = String.length st > 3 && (String.sub st 0 3 = "du:" || String.sub st 0 4 = "dra:") in
                if two_call && os.(i) = "EA" && !res = "1" then res := "K:two_call_helper_partial"
                else if not (two_call && os.(i) = "EA") then res := "0"
              end
          end) sts;
      (* a save that FAILS (whatever the error: the adapter's, or the model lacking a policy definition) leaves the store
         holding one complete policy: where the observation block reads the adapter's contents back (?rv), the answer after
         the failed save is the one before it (the old policy) or the in-memory policy of that moment (the new one) *)
      Array.iteri (fun i st ->
          if st = "SV" && String.length os.(i) > 0 && os.(i).[0] = 'E' then begin
            let n = block_before stl i in
            if n > 0 && i + n < Array.length sts && sub_list stl (i - n) n = sub_list stl (i + 1) n then
              for j = 1 to n do
                if sts.(i + j) = "?rv" && os.(i + j) <> os.(i - n + j - 1) then begin
                  let mem = List.filter (fun x -> x <> "-")
                      (List.filter_map (fun k -> if sts.(i + k) = "?ga:p" || sts.(i + k) = "?ga:g" then Some os.(i + k) else None)
                         (List.init n (fun k -> k + 1))) in
                  let newv = if mem = [] then "-" else String.concat ";" mem in
                  if os.(i + j) <> newv then res := "0"
                end
              done
          end) sts;
      !res end
  | None -> "0"

(* C07: every call of the case is confined to another domain: the observed
   domain's block of answers is the same before and after it *)
let pred_c07 steps impl =
  match impl_results impl with
  | Some outs ->
    let stl = steps_list steps in
    let sts = Array.of_list stl in
    if Array.length sts <> List.length outs then false else begin
      let ok = ref true in
      Array.iteri (fun i st ->
          if not (is_query st) then begin
            let n = block_before stl i in
            if n > 0 && sub_list stl (i - n) n = sub_list stl (i + 1) n then
              if sub_list outs (i - n) n <> sub_list outs (i + 1) n then ok := false
          end) sts;
      (* MK:0 .. MK:1 brackets calls of the OBSERVED domain whose net effect on its stored rules is nil (the generator
         builds them so: a grant followed by its revocation): the view after MK:1 equals the view before MK:0, whatever
         the other domains hold *)
      Array.iteri (fun i st ->
          if st = "MK:0" then begin
            let n = block_before stl i in
            let j = ref (i + 1) in
            while !j < Array.length sts && sts.(!j) <> "MK:1" do incr j done;
            if n > 0 && !j < Array.length sts && sub_list stl (i - n) n = sub_list stl (!j + 1) n then
              if sub_list outs (i - n) n <> sub_list outs (!j + 1) n then ok := false
          end) sts;
      !ok end
  | None -> false

(* C08: granting never revokes, revoking never grants.
   allow-override: after an accepted addition of a rule or link the granted
   set only grows, after a removal it only shrinks; deny-override and
   allow-and-deny: adding a rule whose effect is deny only shrinks it, removing
   one only grows it. *)
let pred_c08 spec steps impl =
  match impl_results impl with
  | Some outs ->
    let stl = steps_list steps in
    let sts = Array.of_list stl in
    if Array.length sts <> List.length outs then false else begin
      let eff = List.fold_left (fun acc kv -> if String.length kv > 2 && String.sub kv 0 2 = "e=" then
                                   String.sub kv 2 (String.length kv - 2) else acc) "" (split_outside ';' spec) in
      let ok = ref true in
      let os = Array.of_list outs in
      Array.iteri (fun i st ->
          if not (is_query st) && os.(i) = "1" then begin
            let n = block_before stl i in
            if n > 0 && sub_list stl (i - n) n = sub_list stl (i + 1) n then begin
              let before = sub_list outs (i - n) n and after = sub_list outs (i + 1) n in
              let grows = List.for_all2 (fun b a -> b <> "1" || a = "1") before after in
              let shrinks = List.for_all2 (fun b a -> a <> "1" || b = "1") before after in
              let f = String.split_on_char ':' st in
              (match f with
               | [("A" | "R") as k; sec; _; rule] ->
                 let is_add = k = "A" in
                 let flds = String.split_on_char ',' rule in
                 let last = List.nth flds (List.length flds - 1) in
                 if eff = "AO" then (if is_add then (if not grows then ok := false) else (if not shrinks then ok := false))
                 else if sec = "p" && last = "deny" then
                   (if is_add then (if not shrinks then ok := false) else (if not grows then ok := false))
                 else ()
               | [("AM" | "RM") as k; sec; _; _] when sec = "g" || eff = "AO" ->
                 (* a batch of role links / of rules under allow-override: an accepted batch addition only grows the
                    granted set, an accepted batch removal only shrinks it *)
                 if eff = "AO" then (if k = "AM" then (if not grows then ok := false) else (if not shrinks then ok := false))
               | _ -> ())
            end
          end) sts;
      !ok end
  | None -> false

(* C13: the query API agrees with enforcement, judged only from the
   implementation's own dumps of the stored rules (no role graph, no model) *)
let parse_rules_out (o : string) : string list list =
  if o = "-" then [] else List.map (fun r -> if r = "!" then [] else String.split_on_char ',' r) (String.split_on_char ';' o)
let parse_names_out (o : string) : string list = if o = "!" then [] else String.split_on_char ',' o
let uniq l = List.sort_uniq compare l
let pred_c13 steps impl =
  match impl_results impl with
  | Some outs ->
    let sts = Array.of_list (steps_list steps) and os = Array.of_list outs in
    let n = Array.length sts in
    if n <> Array.length os then false else begin
      let ok = ref true in
      let fail () = ok := false in
      let i = ref 0 in
      let last_delete = ref None in
      while !i < n do
        if sts.(!i) = "?ga:p" && !i + 1 < n && sts.(!i + 1) = "?ga:g" then begin
          let prules = List.map (fun r -> List.tl (List.tl r)) (parse_rules_out os.(!i)) in
          let grules = List.map (fun r -> List.tl (List.tl r)) (parse_rules_out os.(!i + 1)) in
          (* effect of the preceding delete call *)
          (match !last_delete with
           | Some ("du", nm) ->
             if List.exists (fun r -> List.nth_opt r 0 = Some nm) grules || List.exists (fun r -> List.nth_opt r 0 = Some nm) prules then fail ()
           | Some ("dra", nm) ->
             if List.exists (fun r -> List.nth_opt r 1 = Some nm) grules || List.exists (fun r -> List.nth_opt r 0 = Some nm) prules then fail ()
           | Some ("dpsf", nm) ->
             if List.exists (fun r -> List.nth_opt r 0 = Some nm) prules then fail ()
           | Some ("drs", nm) ->
             (* delete_roles_for_user(name, domain): nm = name or name:domain *)
             (match String.split_on_char '/' nm with
              | [u; "-"] -> if List.exists (fun r -> List.nth_opt r 0 = Some u) grules then fail ()
              | [u; d] -> if List.exists (fun r -> List.nth_opt r 0 = Some u && List.nth_opt r 2 = Some d) grules then fail ()
              | _ -> ())
           | Some ("dp", perm) ->
             let pm = String.split_on_char ',' perm in
             if List.exists (fun r -> match r with _ :: tl -> List.length tl >= List.length pm &&
                                                              List.filteri (fun j _ -> j < List.length pm) tl = pm | [] -> false) prules then fail ()
           | _ -> ());
          last_delete := None;
          let edges d = List.filter_map (fun r -> match r, d with
              (* a rule from a name to itself asserts no link (add_link ignores it) *)
              | [a; b], "-" when a <> b -> Some (a, b)
              | [a; b; d'], d when d <> "-" && d' = d && a <> b -> Some (a, b)
              | _ -> None) grules in
          let reach d u =
            let es = edges d in
            let rec go seen front =
              let nxt = uniq (List.concat_map (fun x -> List.filter_map (fun (a, b) -> if a = x then Some b else None) es) front) in
              let nw = List.filter (fun x -> not (List.mem x seen)) nxt in
              if nw = [] then seen else go (seen @ nw) nw in
            go [] [u] in
          let iperms d u =
            let subs = uniq (u :: reach d u) in
            uniq (List.filter (fun r -> match r with
                | sub :: rest -> List.mem sub subs && (d = "-" || (match rest with dd :: _ -> dd = d | [] -> false))
                | [] -> false) prules) in
          let rf = Hashtbl.create 16 and uf = Hashtbl.create 16 in
          let j = ref (!i + 2) in
          while !j < n && is_query sts.(!j) && sts.(!j) <> "?ga:p" do
            let f = String.split_on_char ':' sts.(!j) in
            (match f with
             | ["?ir"; u; d] ->
               if uniq (parse_names_out os.(!j)) <> uniq (reach d u) then fail ()
             | ["?ip"; u; d] ->
               if uniq (parse_rules_out os.(!j)) <> iperms d u then fail ()
             | ["?rf"; u; d] -> Hashtbl.replace rf (u, d) (parse_names_out os.(!j));
               (* direct roles = out-neighbours *)
               if uniq (parse_names_out os.(!j)) <> uniq (List.filter_map (fun (a, b) -> if a = u then Some b else None) (edges d)) then fail ()
             | ["?uf"; u; d] -> Hashtbl.replace uf (u, d) (parse_names_out os.(!j));
               (* direct users = in-neighbours *)
               if uniq (parse_names_out os.(!j)) <> uniq (List.filter_map (fun (a, b) -> if b = u then Some a else None) (edges d)) then fail ()
             | ["?hr"; u; r; d] ->
               if os.(!j) <> b01 (List.mem (u, r) (edges d)) then fail ()
             | ["?e"; vs] ->
               let vals = List.map (fun v -> String.sub v 2 (String.length v - 2)) (String.split_on_char ',' vs) in
               (match vals with
                | [u; o; a] ->
                  let granted = List.exists (fun r -> r <> [] && List.tl r = [o; a]) (iperms "-" u) in
                  if os.(!j) <> b01 granted then fail ()
                | [u; d; o; a] ->
                  let granted = List.exists (fun r -> r <> [] && List.tl r = [d; o; a]) (iperms d u) in
                  if os.(!j) <> b01 granted then fail ()
                | _ -> ())
             | ["?iu"; perm] ->
               let pm = String.split_on_char ',' perm in
               let res = parse_names_out os.(!j) in
               let roles = uniq (List.filter_map (fun r -> List.nth_opt r 1) grules) in
               let cands = uniq (List.filter_map (fun r -> List.nth_opt r 0) prules @
                                 List.filter_map (fun (a, b) -> if List.mem b roles then Some a else None) (edges "-")) in
               let users = List.filter (fun u -> not (List.mem u roles)) cands in
               let has u = List.exists (fun r -> r <> [] && List.tl r = pm) (iperms "-" u) in
               if uniq res <> uniq (List.filter has users) then fail ()
             | _ -> ());
            incr j
          done;
          (* roles-for-user and users-for-role are inverse views *)
          Hashtbl.iter (fun (u, d) rs -> List.iter (fun r ->
              match Hashtbl.find_opt uf (r, d) with
              | Some us -> if not (List.mem u us) then fail ()
              | None -> ()) rs) rf;
          Hashtbl.iter (fun (r, d) us -> List.iter (fun u ->
              match Hashtbl.find_opt rf (u, d) with
              | Some rs -> if not (List.mem r rs) then fail ()
              | None -> ()) us) uf;
          i := !j
        end else begin
          (match String.split_on_char ':' sts.(!i) with
           | [("du" | "dra" | "dp" | "dpsf") as k; x] when os.(!i) = "1" || os.(!i) = "0" -> last_delete := Some (k, x)
           | ["drs"; u; d] when os.(!i) = "1" || os.(!i) = "0" -> last_delete := Some ("drs", u ^ "/" ^ d)
           | _ -> ());
          incr i
        end
      done;
      !ok end
  | None -> false

(* C19: decisions of a (g on subjects, g2 on objects) model against the
   specification in which each definition is its own relation, computed from
   the implementation's dump of the stored grouping rules and the (static) p
   rules of the adapter spec. A deviation is the known finding "all role
   definitions share one role manager" (D7). *)
let pred_c19 ad steps impl =
  match impl_results impl with
  | Some outs ->
    let sts = Array.of_list (steps_list steps) and os = Array.of_list outs in
    let n = Array.length sts in
    if n <> Array.length os then "0" else begin
      let prules = match String.split_on_char '@' ad with
        | ["M"; l; _] -> List.filter_map (fun r -> match r with "p" :: "p" :: f -> Some f | _ -> None) (parse_rules_out l)
        | _ -> [] in
      let res = ref "1" in
      (* blocks: requests ... then ?ga:g *)
      let i = ref 0 in
      while !i < n do
        if sts.(!i) = "?ga:g" then begin
          let grules = parse_rules_out os.(!i) in
          let edges key d = List.filter_map (fun r -> match r with
              (* a binary definition (d = None) links the first two columns whatever follows them (extra "custom data"
                 columns are allowed); a ternary one takes the domain from the third column *)
              | _ :: k :: a :: b :: rest when k = key && a <> b && (match rest, d with _, None -> true | x :: _, Some y -> x = y | [], Some _ -> false) -> Some (a, b)
              | _ -> None) grules in
          let reach key d u v =
            u = v ||
            (let es = edges key d in
             let rec go seen front =
               let nxt = uniq (List.concat_map (fun x -> List.filter_map (fun (a, b) -> if a = x then Some b else None) es) front) in
               let nw = List.filter (fun x -> not (List.mem x seen)) nxt in
               if nw = [] then seen else go (seen @ nw) nw in
             List.mem v (go [] [u])) in
          let j = ref (!i - 1) in
          while !j >= 0 && String.length sts.(!j) > 3 && String.sub sts.(!j) 0 3 = "?e:" do
            let vals = List.map (fun v -> String.sub v 2 (String.length v - 2))
                (String.split_on_char ',' (String.sub sts.(!j) 3 (String.length sts.(!j) - 3))) in
            let exp = match vals with
              | [s; o; a] -> Some (List.exists (fun r -> match r with
                  | [ps; po; pa] -> pa = a && reach "g" None s ps && reach "g2" None o po | _ -> false) prules)
              | [s; d; o; a] -> Some (List.exists (fun r -> match r with
                  | [ps; pd; po; pa] -> pa = a && pd = d && reach "g" (Some d) s ps && reach "g2" (Some d) o po
                  | [ps; po; pa] -> pa = a && reach "g" None s ps && reach "g2" (Some d) o po   (* g binary, g2 ternary *)
                  | _ -> false) prules)
              | _ -> None in
            (match exp with
             | Some b -> if os.(!j) <> b01 b then res := "K:shared_role_manager"
             | None -> ());
            decr j
          done
        end;
        incr i
      done;
      !res end
  | None -> "0"

(* C14: the extracted Gallina predicate c14_pred (delivery count, payload,
   replica = primary after every call) on the implementation's trace *)
let outcome_of_str = function
  | "1" -> Ok true | "0" -> Ok false | "P" -> Panic
  | "ER" -> Err ERequest | "EP" -> Err EPolicy | "EV" -> Err EEvalc | "EM" -> Err EModel
  | "EB" -> Err ERbac | "EA" -> Err EAdapter | "EI" -> Err EIo
  | s -> failwith ("outcome " ^ s)
let rules_of_out o = List.map (List.map dec) (parse_rules_out o)
let rule_of_out o = if o = "!" then [] else List.map dec (String.split_on_char ',' o)
let event_of_str (s : string) : event =
  match String.split_on_char '^' s with
  | ["EA"; a; b; r] -> EvAdd (dec a, dec b, rule_of_out r)
  | ["EAM"; a; b; r] -> EvAddMany (dec a, dec b, rules_of_out r)
  | ["ER"; a; b; r] -> EvRemove (dec a, dec b, rule_of_out r)
  | ["ERM"; a; b; r] -> EvRemoveMany (dec a, dec b, rules_of_out r)
  | ["ERF"; a; b; r] -> EvRemoveFiltered (dec a, dec b, rules_of_out r)
  | ["ES"; r] -> EvSave (rules_of_out r)
  | ["EC"] -> EvClear
  | _ -> failwith ("event " ^ s)
let events_of_out o = if o = "-" then [] else List.map event_of_str (String.split_on_char '+' o)
(* delivery counts, independent of the replica and of the model: while notifications are enabled an accepted call that
   changed the stores (read off the implementation's own dumps before / after), a successful save and a successful clear
   deliver exactly one notification (the two-call helpers delete_user / delete_role: one or two); any call made while
   they are disabled, and any call that changed nothing, delivers none - whatever toggles and calls came before *)
let c14_counts_ok (sts : string array) (os : string array) : bool =
  let n = Array.length sts in
  let ok = ref true and enabled = ref true in
  let last_p = ref None and last_g = ref None and last_w = ref None in
  for i = 0 to n - 1 do
    let st = sts.(i) in
    if st = "?ga:p" then last_p := Some os.(i)
    else if st = "?ga:g" then last_g := Some os.(i)
    else if st = "?wl" then last_w := Some (List.length (events_of_out os.(i)))
    else if not (is_query st) then begin
      (match step_of st with
       | SOp (OEnableAutoNotify b) -> enabled := b
       | SOp (OEnableAutoSave _ | OEnableAutoBuild _ | OEnableEnforce _) -> ()
       | SOp o when i + 3 < n && sts.(i + 1) = "?ga:p" && sts.(i + 2) = "?ga:g" && sts.(i + 3) = "?wl"
                    && (os.(i) = "1" || os.(i) = "0") ->
         (match !last_p, !last_g, !last_w with
          | Some bp, Some bg, Some bw ->
            let delta = List.length (events_of_out os.(i + 3)) - bw in
            let changed = os.(i + 1) <> bp || os.(i + 2) <> bg in
            let two_call = (match o with ORbac (RDeleteUser _ | RDeleteRoleAll _) -> true | _ -> false) in
            let always = (match o with OSave | OClear -> os.(i) = "1" | _ -> false) in
            (match o with
             | OLoad | OLoadFiltered _ | OSetModel _ | OSetAdapter _ | OSetRoleManager _ | OBuildRoleLinks
             | OSetEffector | OAddFunction _ -> ()      (* reloads and reconfiguration are not notified *)
             | _ ->
               if not !enabled then (if delta <> 0 then ok := false)
               else if always then (if delta <> 1 then ok := false)
               else if changed then (if not (delta = 1 || (two_call && delta = 2)) then ok := false)
               else if delta <> 0 then ok := false)
          | _ -> ())
       | _ -> ());
      last_p := None; last_g := None
    end
  done;
  !ok

let pred_c14 line spec ad flags steps impl =
  match impl_results impl with
  | Some outs ->
    let sts = Array.of_list (steps_list steps) and os = Array.of_list outs in
    let n = Array.length sts in
    if n <> Array.length os then false else if not (c14_counts_ok sts os) then false else begin
      let d = modeldef_of_spec spec in
      match new_enforcer d (adapter_of_spec ad) true with
      | (s0, Ok _) ->
        let init = store_of s0.e_model in
        let tr = ref [] and prev_log = ref 0 and ok = ref true in
        (* calls made while notifications are off are, by design, not replicated: they must deliver
           nothing, and the replica comparison ends at the first of them that changes the policy *)
        let enabled = ref true and stopped = ref false in
        Array.iteri (fun i st ->
            if not (is_query st) && !stopped then begin
              (if i + 3 < n && sts.(i + 3) = "?wl" then begin
                  let evs = events_of_out os.(i + 3) in
                  (match step_of st with
                   | SOp (OEnableAutoNotify b) -> enabled := b
                   | _ -> ());
                  if not !enabled && List.length evs <> !prev_log then ok := false;
                  prev_log := List.length evs end)
            end else
            if not (is_query st) then begin
              (match step_of st with
               | SOp (OEnableAutoNotify b) -> enabled := b
               | SOp (OEnableAutoSave _ | OEnableAutoBuild _ | OEnableEnforce _) -> ()
               | SOp _ -> if not !enabled then stopped := true
               | _ -> ());
              if !stopped then begin
                (if i + 3 < n && sts.(i + 3) = "?wl" then begin
                    let evs = events_of_out os.(i + 3) in
                    if List.length evs <> !prev_log then ok := false end)
              end else
              if i + 3 < n && sts.(i + 1) = "?ga:p" && sts.(i + 2) = "?ga:g" && sts.(i + 3) = "?wl" then begin
                match step_of st with
                | SOp o ->
                  let evs = events_of_out os.(i + 3) in
                  let delta = List.filteri (fun j _ -> j >= !prev_log) evs in
                  if List.length evs < !prev_log then ok := false;
                  prev_log := List.length evs;
                  tr := { o_op = o; o_res = outcome_of_str os.(i); o_events = delta;
                          o_p = rules_of_out os.(i + 1); o_g = rules_of_out os.(i + 2) } :: !tr
                | _ -> ()
              end else ok := false
            end) sts;
        !ok && c14_pred true init (List.rev !tr)
      | _ -> false end
  | None -> false

(* C12: extracted c12_pred on the implementation's dumps: full load, filtered
   load, flag; plus the save guard (a filtered enforcer cannot overwrite the store) *)
(* a raw policy text (T@ / Ft@ adapter): the rows the Gallina file parser gives for it, and whether two store dumps
   (rules = sec :: ptype :: fields) hold exactly those rows, type by type, in file order *)
let text_rows_of_adapter (ad : string) : string list list option =
  match String.split_on_char '@' ad with
  | [("T" | "Ft"); t] -> Some (List.map (List.map enc) (parsed_lines (dec t)))
  | _ -> None
(* the policy types a model spec ("r=..;p=..;p2=..;g=2;..") defines: keys beginning with p or g *)
let defined_types (spec : string) : string list =
  List.filter_map (fun kv -> match String.index_opt kv '=' with
      | Some i when i > 0 && (kv.[0] = 'p' || kv.[0] = 'g') -> Some (String.sub kv 0 i)
      | _ -> None) (String.split_on_char ';' spec)
(* a row whose first column is not a policy type of the model (unknown section letter, unknown type of a known section,
   a multi-byte first character) is skipped by the loaders: it must not surface in any store *)
let dumps_are_rows ?(spec = "") (dp : string) (dg : string) (rows : string list list) : bool =
  let dump = parse_rules_out dp @ parse_rules_out dg in
  let rows = if spec = "" then rows else
      let dt = defined_types spec in List.filter (function t :: _ -> List.mem t dt | [] -> false) rows in
  let types = uniq (List.filter_map (function t :: _ -> Some t | [] -> None) rows @ List.filter_map (function _ :: t :: _ -> Some t | _ -> None) dump) in
  List.for_all (fun t ->
      List.filter_map (function _ :: t' :: f when t' = t -> Some f | _ -> None) dump
      = List.filter_map (function t' :: f when t' = t -> Some f | _ -> None) rows) types

let pred_c12 ad steps impl =
  match impl_results impl with
  | Some outs ->
    let sts = Array.of_list (steps_list steps) and os = Array.of_list outs in
    if Array.length sts <> Array.length os then "0"
    else if Array.length sts = 11 && sts.(7) = "LD" && text_rows_of_adapter ad <> None then begin
      (* raw text: the full load is exactly the text's rows; the filtered load is the filter applied to them; a full
         reload restores them and resets the mark *)
      match text_rows_of_adapter ad, String.split_on_char ':' sts.(3) with
      | Some rows, [_; fp; fg] ->
        if os.(3) = "P" then "-" else
          b01 (dumps_are_rows os.(0) os.(1) rows && os.(2) = "0"
               && c12_pred (rule_of_out fp) (rule_of_out fg) (rules_of_out os.(0)) (rules_of_out os.(1))
                 (rules_of_out os.(4)) (rules_of_out os.(5)) (os.(6) = "1")
               && os.(8) = os.(0) && os.(9) = os.(1) && os.(10) = "0")
      | _ -> "0"
    end
    else if Array.length sts = 9 && String.length sts.(3) > 3 && String.sub sts.(3) 0 3 = "LF:" then begin
      match String.split_on_char ':' sts.(3) with
      | [_; fp; fg] ->
        if os.(3) = "P" then "-"     (* filter index beyond a line of the file adapter: known class D22, judged elsewhere *)
        else begin
          let strip l = List.map (fun r -> match r with _ :: _ :: f -> f | _ -> []) l in
          ignore strip;
          let ok1 = c12_pred (rule_of_out fp) (rule_of_out fg) (rules_of_out os.(0)) (rules_of_out os.(1))
              (rules_of_out os.(4)) (rules_of_out os.(5)) (os.(6) = "1") in
          let ok2 = if os.(6) = "1" then os.(7) = "P" && os.(8) = cat_dumps os.(0) os.(1) else os.(7) <> "P" in
          b01 (ok1 && ok2)
        end
      | _ -> "0"
    end
    else if Array.length sts = 12 && sts.(4) = "FX" then
      (* failed reload: stores and flag unchanged across it; a filtered enforcer is still refused the save and the
         full store (read back after the file is available again) is intact *)
      b01 (os.(5) = "EI" && os.(6) = os.(1) && os.(7) = os.(2) && os.(8) = os.(3)
           && (if os.(3) = "1" then os.(10) = "P" else true))
    else if Array.length sts = 4 && sts.(1) = "?if" then
      (* constructor on a pre-filtered adapter: no load, save refused *)
      b01 (os.(0) = "-" && os.(1) = "1" && os.(2) = "P")
    else "-"
  | None -> "0"

(* C04: the extracted ideal ordered-set replay c04_check on the implementation's
   results and store dumps after every management call *)
(* "every read API is a view of that same set": each view query is recomputed from the implementation's OWN
   store dumps (?ga:p / ?ga:g) taken since the last call; rules in the dumps are sec :: ptype :: fields *)
let c04_views_ok (sts : string array) (os : string array) : bool =
  let n = Array.length sts in
  let dump_p = ref None and dump_g = ref None in
  let ok = ref true in
  let rec dedup seen = function [] -> [] | x :: r -> if List.mem x seen then dedup seen r else x :: dedup (x :: seen) r in
  for i = 0 to n - 1 do
    let st = sts.(i) in
    if not (is_query st) then (dump_p := None; dump_g := None)
    else if st = "?ga:p" then dump_p := Some (parse_rules_out os.(i))
    else if st = "?ga:g" then dump_g := Some (parse_rules_out os.(i))
    else begin
      let f = String.split_on_char ':' st in
      let store sec = if sec = "g" then !dump_g else !dump_p in
      let of_type sec pt = match store sec with
        | Some rs -> Some (List.filter_map (fun r -> match r with s :: t :: fl when s = sec && t = pt -> Some fl | _ -> None) rs)
        | None -> None in
      let o = os.(i) in
      if o <> "P" && o <> "PANIC" then
        match f with
        | ["?gp"; sec; pt] ->
          (match of_type sec pt with Some rs -> if parse_rules_out o <> rs then ok := false | None -> ())
        | ["?hp"; sec; pt; r] ->
          (match of_type sec pt with
           | Some rs -> let r = if r = "!" then [] else String.split_on_char ',' r in
             if o <> b01 (List.mem r rs) then ok := false
           | None -> ())
        | ["?gf"; sec; pt; idx; vals] ->
          (match of_type sec pt with
           | Some rs ->
             let idx = int_of_string idx in
             let vals = if vals = "!" then [] else String.split_on_char ',' vals in
             let in_range = List.for_all (fun r -> List.length r >= idx + List.length vals) rs in
             if in_range then begin
               let keep r = List.for_all (fun x -> x) (List.mapi (fun j v -> v = "~" || List.nth r (idx + j) = v) vals) in
               if parse_rules_out o <> List.filter keep rs then ok := false
             end
           | None -> ())
        | ["?vl"; sec; pt; idx] ->
          (match of_type sec pt with
           | Some rs ->
             let idx = int_of_string idx in
             if List.for_all (fun r -> List.length r > idx) rs then
               (* distinct values; their order is not part of the property (the code keeps last occurrences) *)
               (if List.sort compare (parse_names_out o) <> uniq (List.map (fun r -> List.nth r idx) rs) then ok := false)
           | None -> ())
        | _ -> ()
    end
  done;
  !ok

let pred_c04 line spec ad flags steps impl =
  match impl_results impl with
  | Some outs ->
    let sts = Array.of_list (steps_list steps) and os = Array.of_list outs in
    let n = Array.length sts in
    if n <> Array.length os then false else if not (c04_views_ok sts os) then false else begin
      let d = modeldef_of_spec spec in
      match new_enforcer d (adapter_of_spec ad) false with
      | (s0, Ok _) ->
        let tr = ref [] in
        Array.iteri (fun i st ->
            if not (is_query st) && i + 2 < n && sts.(i + 1) = "?ga:p" && sts.(i + 2) = "?ga:g" then
              match step_of st with
              | SOp o when ideal_step (ideal_of s0.e_model) o <> None ->
                tr := (((o, outcome_of_str os.(i)), rules_of_out os.(i + 1)), rules_of_out os.(i + 2)) :: !tr
              | _ -> ()) sts;
        c04_check (ideal_of s0.e_model) (List.rev !tr)
      | _ -> false end
  | None -> false

(* C18: every query answered by the reconfigured enforcer and, right after, by
   the freshly built twin (same model text, copy of the adapter contents, same
   components) must agree *)
let pred_c18 steps impl =
  match impl_results impl with
  | Some outs ->
    let sts = Array.of_list (steps_list steps) and os = Array.of_list outs in
    if Array.length sts <> Array.length os then false else begin
      let ok = ref true in
      Array.iteri (fun i st ->
          if String.length st > 2 && String.sub st 0 2 = "?2" && i > 0 then begin
            let q = "?" ^ String.sub st 2 (String.length st - 2) in
            if sts.(i - 1) = q && os.(i - 1) <> os.(i) then ok := false
          end;
          if st = "FRESH" && os.(i) <> "1" then ok := false) sts;
      !ok end
  | None -> false

let pred_eng line spec ad flags steps impl =
  (* a constructor that failed (e.g. a scripted adapter failing the initial load) leaves nothing to judge *)
  if impl_results impl = None && String.length impl >= 5 && String.sub impl 0 5 = "new=E" then "-" else
  match cvprop with
  | "C05" -> b01 (pred_c05 steps impl)
  | "C09" -> b01 (pred_c09 steps impl)
  | "C10" ->
    let mouts = (try (match impl_results (run_eng_line line spec ad flags steps) with
        | Some l -> Some (Array.of_list l) | None -> None) with _ -> None) in
    pred_c10 ~mouts steps impl
  | "C06" ->
    (* total (no panic / hang), arity errors reported, and a grant only when the reference semantics grant *)
    (match impl_results impl with
     | Some outs when not (List.exists (fun o -> o = "P" || o = "X" || o = "PANIC" || o = "HANG") outs) ->
       b01 (pred_c01 line spec ad flags steps impl)
     | _ -> "0")
  | "C04" -> b01 (try pred_c04 line spec ad flags steps impl with Failure _ -> false)
  | "C07" -> b01 (pred_c07 steps impl)
  | "C18" -> b01 (pred_c18 steps impl)
  | "C12" -> pred_c12 ad steps impl
  | "C16" ->
    (* a whole policy text through an adapter: the loaded stores are exactly the rows of the text, also after a reload *)
    (match text_rows_of_adapter ad, impl_results impl with
     | Some rows, Some [p1; g1; ld; p2; g2] -> b01 (dumps_are_rows ~spec p1 g1 rows && ld = "1" && p2 = p1 && g2 = g1)
     (* ... and after the file adapter has RENDERED the policy (save_policy): the rendered file read by a fresh adapter (?rv)
        and a reload give the same rows again *)
     | Some rows, Some [p1; g1; ld; p2; g2; sv; rv; ld2; p3; g3] ->
       b01 (dumps_are_rows ~spec p1 g1 rows && ld = "1" && p2 = p1 && g2 = g1
            && sv = "1" && rv = cat_dumps p1 g1 && ld2 = "1" && p3 = p1 && g3 = g1)
     | Some _, _ -> "0"
     | None, _ -> "-")
  | "C14" -> b01 (try pred_c14 line spec ad flags steps impl with Failure _ -> false)
  | "C19" ->
    (* extracted Gallina: decision = per-definition semantics (c19_pred); a deviation is the known
       finding exactly when the extracted classifier known_shared_rm_case holds for (state, request) *)
    (match trace_of line spec ad flags steps, impl_results impl with
     | Some (ptab, tr), Some outs when List.length outs = List.length tr ->
       let res = ref "1" in
       List.iter2 (fun (s, k, _) o ->
           match k with
           | SQuery (QEnforce rv) ->
             if not (c19_pred ptab s rv (outcome_of_str o)) then
               (if known_shared_rm_case ptab s rv then (if !res = "1" then res := "K:shared_role_manager") else res := "0")
           | _ -> ()) tr outs;
       (* the independent hand computation from the dumps must agree on "deviates or not" *)
       (* the hand oracle knows three shapes (g, g2 both binary; both ternary; g binary + g2 ternary); for the reversed mixed
          shape (g ternary, g2 binary) only the extracted Gallina predicate judges *)
       let reversed = (try ignore (Str.search_forward (Str.regexp_string "g=3;g2=2") spec 0); true with Not_found -> false) in
       let hand = if reversed then "1" else pred_c19 ad steps impl in
       if !res = "1" && hand <> "1" then "0" else !res
     | _ -> "0")
  | "C13" -> b01 (pred_c13 steps impl)
  | "C08" -> b01 (pred_c08 spec steps impl)
  | "C01" -> b01 (pred_c01 line spec ad flags steps impl)
  | "C17" -> b01 (pred_c17 steps impl)
  | _ -> "-"

(* ---------- dispatch ---------- *)
let run_case (line : string) (toks : string list) : string =
  match toks with
  | ["eng"; spec; ad; flags; steps] | ["engc"; spec; ad; flags; steps] -> run_eng_line line spec ad flags steps
  | ["twin"; spec; ad; flags; steps] ->
    let r = run_eng_line line spec ad flags steps in r ^ " ## " ^ r
  | ["eff"; r; seq] -> show_eobs (observe_effector (erule_of r) (effs_of seq))
  | ["effnew"; e; c] ->
    (match new_stream (dec e) (nat_of_int (int_of_string c)) with
     | Some _ -> "ok" | None -> "PANIC")
  | ["rm"; maxd; ops; qs] -> run_rm maxd ops qs
  | ["rmm"; maxd; ops; qs] -> run_rmm maxd ops qs
  | "pm" :: fn :: k :: pat :: rest -> run_pm fn k pat rest
  | ["savecrash"; o; n; k] -> run_savecrash o n k
  (* a fault / crash injected at a system-call boundary: which of the two complete policies remains depends on the
     call sequence of the adapter, which the model does not predict: "~" = not compared, judged by the predicate only *)
  | ["savesys"; _; _; _; _; _] -> "~"
  | ["savetrace"; _; n] -> run_savetrace n
  | "stressp" :: _ -> "ok"  (* pattern-heavy model, no writer: every concurrent decision equals the single-thread one *)
  | "stress" :: _ -> "ok"   (* serial oracle: every concurrent decision is a serial one, all threads finish *)
  | [("csv" | "esc" | "rmc" | "csvf" | "ini" | "mdl" | "totext") as kind; t] -> run_txt kind t
  | ["csvx"; t; _] -> run_txt "csv" t
  | ["mdl2"; t1; t2] -> run_txt2 "mdl2" t1 (Some t2)
  | ["tt"; t1] -> run_txt2 "tt" t1 None
  | _ -> "?unknown-case"

let pred_case (line : string) (toks : string list) (impl : string) : string =
  match toks with
  | ["eng"; spec; ad; flags; steps] | ["engc"; spec; ad; flags; steps] -> pred_eng line spec ad flags steps impl
  | ["eff"; r; seq] ->
    (match parse_eobs impl with
     | Some o -> b01 (c02_pred (erule_of r) (effs_of seq) o)
     | None -> "0")
  | ["effnew"; e; c] ->
    (* no grant can come out of a stream that was never created *)
    let exp = match new_stream (dec e) (nat_of_int (int_of_string c)) with
      | Some _ -> "ok" | None -> "PANIC" in
    b01 (impl = exp)
  | ["rm"; maxd; ops; qs] -> (try b01 (pred_rm maxd ops qs impl) with _ -> "0")
  | ["rmm"; maxd; ops; qs] -> (try pred_rmm maxd ops qs impl with _ -> "0")
  | ("csv" | "csvx" | "esc" | "rmc" | "csvf" | "ini" | "mdl" | "totext" | "mdl2" | "tt") :: _ -> pred_txt toks impl
  | ["twin"; _; _; _; _] ->
    (* C11: the cached enforcer's outputs equal the uncached twin's *)
    (match Str.bounded_split (Str.regexp_string " ## ") impl 2 with
     | [a; b] -> b01 (a = b)
     | _ -> "0")
  | ["savecrash"; o; n; _] -> pred_savecrash o n impl
  | ["savesys"; o; n; _; _; _] ->
    (* the store holds one complete policy, old or new; and a save that reported success left the new one *)
    let m = kv impl in
    if List.assoc_opt "res" m = Some "nostrace" then "-" else
    (match pred_savecrash o n impl, List.assoc_opt "res" m, List.assoc_opt "file" m with
     | "1", Some "ok", Some f -> b01 (f = enc_rules (dec_rules n))
     | v, _, _ -> v)
  | "stressp" :: _ -> if impl = "SKIPPED-after-HANG" then "-" else b01 (impl = "ok")
  | "stress" :: _ -> if impl = "SKIPPED-after-HANG" then "-" else b01 (impl = "ok")
  | "pm" :: fn :: k :: pat :: rest ->
    (* totality for every request-side key; documented meaning inside the grammar *)
    if impl = "PANIC" || impl = "HANG" || impl = "ABORT" then "0"
    else (match spec_pm fn k pat rest with Some exp -> b01 (impl = exp) | None -> "-")
  | _ -> "-"

let read_lines f =
  let ic = open_in f in
  let rec go acc = match input_line ic with
    | l -> go (l :: acc) | exception End_of_file -> close_in ic; List.rev acc in
  go []

let toks_of l = List.filter (fun t -> t <> "") (String.split_on_char ' ' l)

let () =
  match Array.to_list Sys.argv with
  | [_; "run"; f] ->
    let oc = stdout in
    List.iter (fun l ->
        let r = try run_case l (toks_of l) with e -> "?exn:" ^ Printexc.to_string e in
        output_string oc r; output_char oc '\n') (read_lines f)
  | [_; "prep"; f] ->
    List.iter (fun l ->
        let r = try (if String.length l > 3 && String.sub l 0 3 = "pm " then prep_pm (toks_of l) else prep_line l)
          with e -> "?exn:" ^ Printexc.to_string e in
        print_string r; print_char '\n') (read_lines f)
  | [_; "pred"; f; g] ->
    let cs = read_lines f and os = read_lines g in
    let rec go cs os = match cs, os with
      | c :: cs', o :: os' ->
        let r = try pred_case c (toks_of c) o with e -> "?exn:" ^ Printexc.to_string e in
        print_string r; print_char '\n'; go cs' os'
      | c :: cs', [] -> print_string "0\n"; ignore c; go cs' []
      | [], _ -> () in
    go cs os
  | _ -> prerr_endline "usage: modelrun run <cases> | pred <cases> <implout>"; exit 2
