(* Hand-written driver around the extracted Gallina model (model.ml).
   Line protocol, one case per line, first token = engine.
     modelrun run  <cases>            -> model observation per case
     modelrun pred <cases> <implout>  -> property predicate on the
                                         implementation's observation: 1 / 0 / -
   Tokens: percent-encoded strings (~ = empty string). *)
open Model

(* ---------- token coding ---------- *)
let explode (s : string) : char list = List.init (String.length s) (String.get s)
let implode (l : char list) : string = String.of_seq (List.to_seq l)

let is_safe c =
  (c >= 'a' && c <= 'z') || (c >= 'A' && c <= 'Z') || (c >= '0' && c <= '9')
  || c = '_' || c = '.' || c = ':' || c = '/' || c = '*'

let enc (l : char list) : string =
  if l = [] then "~" else begin
    let b = Buffer.create 16 in
    List.iter (fun c ->
      if is_safe c then Buffer.add_char b c
      else Buffer.add_string b (Printf.sprintf "%%%02X" (Char.code c))) l;
    Buffer.contents b end

let dec (s : string) : char list =
  if s = "~" then [] else begin
    let b = Buffer.create 16 in
    let n = String.length s in
    let i = ref 0 in
    while !i < n do
      if s.[!i] = '%' then begin
        Buffer.add_char b (Char.chr (int_of_string ("0x" ^ String.sub s (!i + 1) 2)));
        i := !i + 3 end
      else begin Buffer.add_char b s.[!i]; incr i end
    done;
    explode (Buffer.contents b) end

let split_on c s = if s = "" then [] else String.split_on_char c s
(* rule = fields joined by ',', empty rule = "!" ; rule list joined by ';', empty = "-" *)
let dec_rule s = if s = "!" then [] else List.map dec (split_on ',' s)
let enc_rule r = if r = [] then "!" else String.concat "," (List.map enc r)
let dec_rules s = if s = "-" then [] else List.map dec_rule (split_on ';' s)
let enc_rules rs = if rs = [] then "-" else String.concat ";" (List.map enc_rule rs)

let rec nat_of_int n = if n <= 0 then O else S (nat_of_int (n - 1))
let rec int_of_nat = function O -> 0 | S n -> 1 + int_of_nat n

let b01 b = if b then "1" else "0"
let ob01 = function Some true -> "1" | Some false -> "0" | None -> "P"
let parse_ob = function "1" -> Some true | "0" -> Some false | _ -> None

(* ---------- engine: effector (C02) ---------- *)
let erule_of = function
  | "AO" -> AllowOverride | "DO" -> DenyOverride | "AD" -> AllowAndDeny
  | "PR" -> Priority | s -> failwith ("erule " ^ s)
let eff_of = function 'a' -> Allow | 'i' -> Indet | 'd' -> Deny | _ -> failwith "eff"
let effs_of s = List.map eff_of (explode s)

let show_eobs (o : eobs) =
  Printf.sprintf "flags=%s run=%s all=%s"
    (String.concat "" (List.map b01 o.o_flags)) (ob01 o.o_run) (ob01 o.o_all)

let kv line =
  List.filter_map (fun t -> match String.index_opt t '=' with
      | Some i -> Some (String.sub t 0 i, String.sub t (i + 1) (String.length t - i - 1))
      | None -> None) (String.split_on_char ' ' line)

let parse_eobs line : eobs option =
  try
    let m = kv line in
    let fl = List.map (fun c -> c = '1') (explode (List.assoc "flags" m)) in
    Some { o_flags = fl; o_run = parse_ob (List.assoc "run" m);
           o_all = parse_ob (List.assoc "all" m) }
  with _ -> None

(* ---------- engine: role manager (C03) ---------- *)
let opt_of s = if s = "-" then None else Some (dec s)
let lop_of s = match String.split_on_char ',' s with
  | ["C"] -> LClear
  | ["A"; a; b; d] -> LAdd (dec a, dec b, opt_of d)
  | ["D"; a; b; d] -> LDel (dec a, dec b, opt_of d)
  | _ -> failwith ("lop " ^ s)
let lops_of s = if s = "-" then [] else List.map lop_of (String.split_on_char '|' s)
let lq_of s = match String.split_on_char ',' s with
  | ["H"; a; b; d] -> QHas (dec a, dec b, opt_of d)
  | ["R"; n; d] -> QRoles (dec n, opt_of d)
  | ["U"; n; d] -> QUsers (dec n, opt_of d)
  | _ -> failwith ("lquery " ^ s)
let names_str l =
  let l = List.sort compare (List.map enc l) in
  if l = [] then "-" else String.concat "," l
let show_ans = function ABool b -> b01 b | ANames l -> names_str l
let parse_ans q s = match q with
  | QHas _ -> ABool (s = "1")
  | _ -> ANames (if s = "-" then [] else List.map dec (String.split_on_char ',' s))

let run_rm maxd ops qs =
  let maxd = nat_of_int (int_of_string maxd) in
  let ops = lops_of ops in
  let m, res = List.fold_left (fun (m, acc) o ->
      let (m', ok) = lstep m o in (m', b01 ok :: acc)) ([], []) ops in
  let res = String.concat "" (List.rev res) in
  let ans = List.map (fun q -> show_ans (answer maxd m (lq_of q))) (String.split_on_char '|' qs) in
  Printf.sprintf "ops=%s q=%s" (if res = "" then "-" else res) (String.concat "|" ans)

let pred_rm maxd ops qs impl =
  let maxd = nat_of_int (int_of_string maxd) in
  let h = lops_of ops in
  let qs = List.map lq_of (String.split_on_char '|' qs) in
  let m = kv impl in
  let ans = String.split_on_char '|' (List.assoc "q" m) in
  if List.length ans <> List.length qs then false
  else List.for_all2 (fun q a -> c03_pred maxd h q (parse_ans q a)) qs ans

(* ---------- dispatch ---------- *)
let run_case (toks : string list) : string =
  match toks with
  | ["eff"; r; seq] -> show_eobs (observe_effector (erule_of r) (effs_of seq))
  | ["effnew"; e; c] ->
    (match new_stream (dec e) (nat_of_int (int_of_string c)) with
     | Some _ -> "ok" | None -> "PANIC")
  | ["rm"; maxd; ops; qs] -> run_rm maxd ops qs
  | _ -> "?unknown-case"

let pred_case (toks : string list) (impl : string) : string =
  match toks with
  | ["eff"; r; seq] ->
    (match parse_eobs impl with
     | Some o -> b01 (c02_pred (erule_of r) (effs_of seq) o)
     | None -> "0")
  | ["effnew"; e; c] ->
    (* no grant can come out of a stream that was never created *)
    let exp = match new_stream (dec e) (nat_of_int (int_of_string c)) with
      | Some _ -> "ok" | None -> "PANIC" in
    b01 (impl = exp)
  | ["rm"; maxd; ops; qs] -> (try b01 (pred_rm maxd ops qs impl) with _ -> "0")
  | _ -> "-"

let read_lines f =
  let ic = open_in f in
  let rec go acc = match input_line ic with
    | l -> go (l :: acc) | exception End_of_file -> close_in ic; List.rev acc in
  go []

let toks_of l = List.filter (fun t -> t <> "") (String.split_on_char ' ' l)

let () =
  match Array.to_list Sys.argv with
  | [_; "run"; f] ->
    let oc = stdout in
    List.iter (fun l ->
        let r = try run_case (toks_of l) with e -> "?exn:" ^ Printexc.to_string e in
        output_string oc r; output_char oc '\n') (read_lines f)
  | [_; "pred"; f; g] ->
    let cs = read_lines f and os = read_lines g in
    let rec go cs os = match cs, os with
      | c :: cs', o :: os' ->
        let r = try pred_case (toks_of c) o with e -> "?exn:" ^ Printexc.to_string e in
        print_string r; print_char '\n'; go cs' os'
      | c :: cs', [] -> print_string "0\n"; ignore c; go cs' []
      | [], _ -> () in
    go cs os
  | _ -> prerr_endline "usage: modelrun run <cases> | pred <cases> <implout>"; exit 2
